"""C06 — STORE accepts exactly the payloads that conform to the defined schema.

Generator, direct property oracle (an independent re-statement of "conforms" following the
property text, working from the case line alone) and metadata.  See notes/C06.md."""
import json, math, os, re, shutil, struct, tempfile, datetime
import vlib, engine
from vlib import hx, unhx
from props import base

PROP = "C06"
PROPS_V = "theories/Props/C06.v"
THEOREMS = ["C06_accept_iff_conforms", "C06_conforms_flat_exact_keys", "C06_reject_no_trace", "C06_accept_one_event",
            "C06_define_error_keeps_schema", "C06_define_existing_rejected", "C06_define_error_iff", "C06_define_append_only",
            "C06_define_ok_appends", "C06_reachable_wf",
            "C06_text_front_transparent", "C06_text_accept_iff_conforms", "C06_former_witnesses_repaired",
            "C06_text_reject_no_trace", "C06_blank_spec",
            "C06_alias_resolution", "C06_alias_case_insensitive", "C06_unknown_spec_is_string",
            "C06_restart_same_registry", "C06_rejected_define_no_trace", "C06_accepted_schema_survives", "C06_replay_unique"]
RULE = ("schemas (1-5 fields over every primitive alias in random case, `T | null` unions in both orders, malformed "
        "specs, enums, date/datetime) x payloads (a conforming payload per the property text, then 0-2 mutations: "
        "missing / extra / misspelled key, a value of every JSON type in a slot, i64/u64 boundary integers, floats in "
        "integer slots and integers in float slots, nested arrays/objects, empty / non-ASCII / brace-carrying strings, "
        "wrong-case enum variants, unparseable or out-of-range times, blank contexts, undefined types), each run as a "
        "directly built Command::Store and as a command line through parse_command, plus DEFINE-twice histories, "
        "histories with restarts on one data directory through `vharn life` (DEFINE / rejected re-DEFINE with another "
        "field set / other types / malformed DEFINE lines / kill or clean restart / STOREs conforming to the accepted "
        "and to the rejected schema) and the spec parser on its own; a case is non-trivial when its type was defined and the STORE reached payload "
        "validation, distinct by (probe, declared field types, mutation kinds, answer)")
ASSUMPTIONS = [
    "the registry model omits the random uid; schemas.bin is modelled as the list of whole records appended by accepted DEFINEs, replayed with last-record-wins at start (append assumed to succeed; torn or corrupt records, which the reader skips, are not modelled); DEFINE's permission gate and STORE's are not modelled (user 'bypass')",
    "field types are a primitive, Optional of a primitive or an enum - all that DEFINE's conversion can produce",
    "payload objects have unique keys (serde_json::Map); a command line with duplicate keys keeps the last one and is outside the model",
    "time strings: Model/Time.v (C16) models chrono by hand; the oracle's ground truth covers strict RFC 3339, YYYY-MM-DD and decimal integers, which is what the generator places in time slots",
    "the command-line model covers payload texts that are valid JSON objects; the tokenizer/PEG front is modelled only through brace balance and '+' in exponents; texts that are not valid JSON (unclosed / stray braces) denote no command and are only checked to be answered with a parse error and to store nothing",
    "engine level: every case is read back from a memtable that never fills (judged in full); a second pass with a 4-event memtable checks only that the answers are the same and that no row carries the context of a rejected STORE - reads across flushes lose / duplicate rows (C03/C07), which C06 does not judge; restart and compaction are other properties' subject",
]
TRUSTED = [
    "Coq 8.16.1 kernel + coqc; vm_compute for closed witnesses; no native_compute",
    "translator tools/params/p30_schema.py (alias table and type_allows_value predicates read from the Rust text; order of checks in store::handle, validate_payload, define_async, PayloadTimeNormalizer, the STORE grammar's brace rule and the tokenizer's symbol set are pattern-checked)",
    "extraction: ExtrOcamlBasic only; ocaml/driver.ml, conv.ml, p_store.ml (decoding/printing)",
    "correspondence harness /verif/harness (vharn fn store_*): real SchemaRegistry + ShardManager in-process, DEFINE/STORE/QUERY through dispatch_command with the JSON renderer, built against /repo with --cfg sneldb_verif",
    "python oracle tools/props/c06.py (own alias table, own conformance check, CPython datetime)",
]

CLAIMED = True
MANIFEST = {
 "level_text": "Theorems (all registries reachable by DEFINE, all JSON payloads with unique keys, no bound): the handler accepts a STORE iff it conforms to a declarative specification (type defined, type and context not blank, flat object, keys within the schema, required keys present, each value of the declared kind with the code's reading of every kind spelled out); a rejected STORE leaves registry and events unchanged and an accepted one appends exactly one event; a DEFINE answered with an error leaves the registry unchanged. The three places where the pinned code contradicted the property statement (float times beyond i64 saturated; command lines with braces inside payload strings or with 'e+' numbers were parse errors) were repaired in /repo (8f02d15, fced25a, b3737c8): the equivalence is now proved under the property's own reading of times for every STORE, directly built or on the command line, with no excluded class; the translator reads the three repairs from the Rust text and the proofs stop checking if one regresses. The model is run against the real DEFINE/STORE/QUERY path in-process on generated schemas x payloads, and an independent Python oracle re-checks accept <=> conforms and the invisibility of rejected STOREs on the implementation's own answers.",
 "design_ref": "DESIGN.md §6 C06",
 "level_note": "Trusted: Coq kernel; tools/params/p30_schema.py; ExtrOcamlBasic extraction + OCaml driver; the Rust harness; the Python oracle. Modelled, not verified: serde_json's number shapes, sonic_rs parsing (compared against serde_json on every text case), chrono (via Model/Time.v, C16). Reads after a flush are not part of this check."
}

# ------------------------------------------------------------------ known findings fallback
# known_findings.json is assembled from known/*.json by tools/gen_manifest.py (maintainer);
# the check reads this property's entries from their source, known/C06.json, so that a status
# change there (known -> fixed) takes effect before the maintainer regenerates the merged file.
_orig_load_known = vlib.load_known


def _load_known(prop):
    if prop == PROP:
        p = os.path.join(vlib.VERIF, "known", "C06.json")
        if os.path.exists(p):
            return [k for k in json.load(open(p)) if k.get("property") == prop]
    return _orig_load_known(prop)


vlib.load_known = _load_known

# ------------------------------------------------------------------ encodings
I64_MIN, I64_MAX, U64_MAX = -2 ** 63, 2 ** 63 - 1, 2 ** 64 - 1


def fbits(f):
    return struct.unpack(">Q", struct.pack(">d", f))[0]


class BigLit(int):
    """An integer literal outside [-2^63, 2^64): written with all its digits in the text, a float in the tree."""


def jt(v):
    """python value -> <json> token (ints must fit u64/i64: anything else has to be a float already)."""
    if isinstance(v, BigLit):
        return "d%016x" % fbits(float(int(v)))
    if v is None:
        return "n"
    if v is True:
        return "t"
    if v is False:
        return "f"
    if isinstance(v, int):
        assert I64_MIN <= v <= U64_MAX, v
        return f"u{v}." if v >= 0 else f"i{v}."
    if isinstance(v, float):
        assert math.isfinite(v)
        return "d%016x" % fbits(v)
    if isinstance(v, str):
        return "s" + v.encode("utf-8").hex() + "."
    if isinstance(v, list):
        return f"a{len(v)}." + "".join(jt(x) for x in v)
    if isinstance(v, dict):
        return f"o{len(v)}." + "".join(k.encode("utf-8").hex() + "." + jt(x) for k, x in v.items())
    raise TypeError(v)


def unjt(s):
    """<json> token -> python value (object = dict in document order)."""
    pos = [0]

    def dot():
        j = s.index(".", pos[0])
        r = s[pos[0]:j]
        pos[0] = j + 1
        return r

    def val():
        c = s[pos[0]]
        pos[0] += 1
        if c == "n":
            return None
        if c == "t":
            return True
        if c == "f":
            return False
        if c in "ui":
            return int(dot())
        if c == "d":
            h = s[pos[0]:pos[0] + 16]
            pos[0] += 16
            return struct.unpack(">d", struct.pack(">Q", int(h, 16)))[0]
        if c == "s":
            return bytes.fromhex(dot()).decode("utf-8")
        if c == "a":
            return [val() for _ in range(int(dot()))]
        if c == "o":
            d = {}
            for _ in range(int(dot())):
                k = bytes.fromhex(dot()).decode("utf-8")
                d[k] = val()
            return d
        raise ValueError(s)
    v = val()
    assert pos[0] == len(s)
    return v


def sch_tok(fields):
    if not fields:
        return "-"
    out = []
    for n, s in fields:
        if isinstance(s, list):
            out.append(hx(n) + ":e:" + ("/".join(hx(x) for x in s) if s else "0"))
        else:
            out.append(hx(n) + ":p:" + hx(s))
    return ",".join(out)


def un_sch(tok):
    if tok == "-":
        return []
    out = []
    for f in tok.split(","):
        n, k, r = f.split(":", 2)
        name = unhx(n).decode("utf-8")
        if k == "p":
            out.append((name, unhx(r).decode("utf-8")))
        else:
            out.append((name, [] if r == "0" else [unhx(x).decode("utf-8") for x in r.split("/")]))
    return out


# ------------------------------------------------------------------ the oracle's reading of the property text
ALIASES = {
    "string": "String", "str": "String", "text": "String", "varchar": "String",
    "u64": "U64", "uint64": "U64",
    "i64": "I64", "int64": "I64", "int": "I64", "integer": "I64",
    "f64": "F64", "float": "F64", "double": "F64", "number": "F64",
    "bool": "Bool", "boolean": "Bool",
    "datetime": "Timestamp", "timestamp": "Timestamp", "date": "Date",
}
# Unicode White_Space (what Rust's str::trim removes)
WS = set([0x9, 0xA, 0xB, 0xC, 0xD, 0x20, 0x85, 0xA0, 0x1680, 0x2028, 0x2029, 0x202F, 0x205F, 0x3000] + list(range(0x2000, 0x200B)))


def ws_strip(s):
    a, b = 0, len(s)
    while a < b and ord(s[a]) in WS:
        a += 1
    while b > a and ord(s[b - 1]) in WS:
        b -= 1
    return s[a:b]


def declared(spec):
    """(base, optional) for a well-formed spec per the property text (an alias, or `alias | null` in either
    order); None when the text does not say what the spec declares."""
    if isinstance(spec, list):
        return ("enum", False)
    if "|" not in spec:
        b = ALIASES.get(spec.lower()) if spec.isascii() else None
        return (b, False) if b else None
    parts = [ws_strip(p) for p in spec.split("|")]
    if len(parts) != 2 or not all(p.isascii() for p in parts):
        return None
    lows = [p.lower() for p in parts]
    if lows.count("null") != 1:
        return None
    other = lows[0] if lows[1] == "null" else lows[1]
    b = ALIASES.get(other)
    return (b, True) if b else None


EPOCH = datetime.datetime(1970, 1, 1)
RFC = re.compile(r"^([0-9]{4})-([0-9]{2})-([0-9]{2})[Tt ]([0-9]{2}):([0-9]{2}):([0-9]{2})(\.[0-9]+)?([Zz]|[+-][0-9]{2}:[0-9]{2})$")
DATE = re.compile(r"^([0-9]{4})-([0-9]{2})-([0-9]{2})$")
INT = re.compile(r"^[+-]?[0-9]+$")


def py_time_string(s):
    """('ok', seconds | None) when the string is a time by the strict grammars the generator uses, ('bad', None) otherwise."""
    s = ws_strip(s)
    m = RFC.match(s)
    try:
        if m:
            y, mo, d, h, mi, sec = (int(m.group(i)) for i in range(1, 7))
            if h > 23 or mi > 59 or sec > 59:
                return ("bad", None)
            off = 0
            z = m.group(8)
            if z not in "Zz":
                oh, om = int(z[1:3]), int(z[4:6])
                if oh > 23 or om > 59:
                    return ("bad", None)
                off = (oh * 60 + om) * 60 * (1 if z[0] == "+" else -1)
            t = datetime.datetime(y, mo, d, h, mi, sec) - EPOCH
            return ("ok", t.days * 86400 + t.seconds - off)
        m = DATE.match(s)
        if m:
            t = datetime.datetime(int(m.group(1)), int(m.group(2)), int(m.group(3))) - EPOCH
            return ("ok", t.days * 86400)
    except ValueError:
        return ("bad", None)
    if INT.match(s):
        n = int(s)
        if abs(n) < 10 ** 19:
            return ("ok", n if abs(n) < 10 ** 11 else None)
        return ("bad", None)
    return ("bad", None)


def value_ok(base_t, variants, v):
    """Does JSON value v have the declared kind?  Returns (ok, expected stored seconds or None)."""
    isnum = isinstance(v, (int, float)) and not isinstance(v, bool)
    if base_t == "String":
        return isinstance(v, str), None
    if base_t == "Bool":
        return isinstance(v, bool), None
    if base_t == "U64":
        return isinstance(v, int) and not isinstance(v, bool) and 0 <= v <= U64_MAX, None
    if base_t == "I64":
        return isinstance(v, int) and not isinstance(v, bool) and I64_MIN <= v <= I64_MAX, None
    if base_t == "F64":
        # reading: JSON has one number type, an integer literal is a valid float
        return isnum, None
    if base_t == "enum":
        return isinstance(v, str) and v in variants, None
    if base_t in ("Timestamp", "Date"):
        if isinstance(v, str):
            k, sec = py_time_string(v)
            return k == "ok", sec
        if isinstance(v, bool):
            return False, None
        if isinstance(v, int):
            return abs(v) < 10 ** 19, (v if abs(v) < 10 ** 11 else None)
        if isinstance(v, float):
            fl = math.floor(v)
            if I64_MIN <= fl <= I64_MAX:
                return True, fl
            # an out-of-range time is not a parseable time (property text)
            return False, None
        return False, None
    raise ValueError(base_t)


def is_blank(s):
    return all(ord(c) in WS for c in s)


def conforms(fields, defined, etype_is_defined, ctx, payload):
    """Property-text conformance.  Returns (verdict, times) with verdict True / False / None (= the text does not decide:
    some field's spec is not a well-formed type)."""
    if not defined or not etype_is_defined:
        return False, {}
    if is_blank(ctx):          # reading: "non-empty" = not blank (the code trims)
        return False, {}
    if not isinstance(payload, dict):
        return False, {}
    decl = {}
    undecided = False
    for n, s in fields:
        d = declared(s)
        if d is None:
            undecided = True
        decl[n] = (d, s)
    for k in payload:
        if k not in decl:
            return False, {}
    verdict = True
    times = {}
    for n, (d, s) in decl.items():
        if d is None:
            continue
        base_t, opt = d
        if n not in payload:
            if not opt:
                return False, {}
            continue
        v = payload[n]
        if opt and v is None:
            continue
        ok, sec = value_ok(base_t, s if base_t == "enum" else None, v)
        if not ok:
            return False, {}
        if base_t in ("Timestamp", "Date") and sec is not None:
            times[n] = sec
    if undecided:
        return None, times
    return verdict, times


def has_brace(v):
    if isinstance(v, str):
        return "{" in v or "}" in v
    if isinstance(v, list):
        return any(has_brace(x) for x in v)
    if isinstance(v, dict):
        return any(has_brace(k) or has_brace(x) for k, x in v.items())
    return False


NOT_JSON = "<not JSON>"      # a str: conforms() rejects anything that is not a dict


def parse_out(out):
    d = {}
    for tok in (out or "").split():
        if "=" in tok:
            k, v = tok.split("=", 1)
            d[k] = v
    return d


def judge(c, impl):
    """The oracle proper.  No known class is left: the three former ones (FloatTimeSaturates, BraceInString,
    PlusExponent) are fixed in /repo and a recurrence is an ordinary failure."""
    line = c["line"].split()
    probe = line[0]
    if impl is None or impl in ("PANIC", "ABORT") or impl.startswith(("GENBUG", "UNKNOWN", "MODEL_EXN")):
        return f"implementation answered {impl}"
    if probe == "store_life":
        return judge_life(c, impl)
    if probe == "store_spec":
        spec = unhx(line[1]).decode("utf-8")
        d = declared(spec)
        if d is None:
            return None
        want = ("O " if d[1] else "P ") + d[0]
        return None if impl == want else f"spec {spec!r} declares {want} but the code resolves it to {impl}"
    o = parse_out(impl)
    if "FLUSH" in o:
        return f"with a memtable that flushes: {o['FLUSH']}"
    S, V, C = o.get("S"), o.get("V"), o.get("C", "")
    if probe == "store_redef":
        f1, f2 = un_sch(line[1]), un_sch(line[2])
        ctx = unhx(line[3]).decode("utf-8")
        payload = unjt(line[4])
        d1ok = len(f1) > 0
        if (o.get("D1") == "OK") != d1ok:
            return f"first DEFINE of a {'non-' if d1ok else ''}empty schema answered {o.get('D1')}"
        if d1ok and o.get("D2") == "OK":
            return "a DEFINE of an already defined event type was answered OK"
        if not d1ok and (o.get("D2") == "OK") != (len(f2) > 0):
            return f"second DEFINE answered {o.get('D2')}"
        fields = f1 if d1ok else f2
        defined = len(fields) > 0
        etype_def = True
        plus = False
    else:
        fields = un_sch(line[1])
        defined = len(fields) > 0
        if (o.get("D") == "OK") != defined:
            return f"DEFINE of {len(fields)} field(s) answered {o.get('D')}"
        etype_def = line[2] == "="
        if probe == "store_case":
            ctx = unhx(line[3]).decode("utf-8")
            payload = unjt(line[4])
            plus = False
        else:
            ctx = unhx(line[3][1:]).decode("utf-8")
            # "!" = the payload text is not valid JSON, hence not a JSON object, hence never conforming
            payload = NOT_JSON if line[5] == "!" else unjt(line[5])
            plus = line[6] == "1"
    # --- invisibility / visibility, whatever the verdict
    if S == "OK":
        if V != "1" or C != ctx.encode("utf-8").hex():
            return f"STORE answered OK but the following QUERY shows {V} new row(s) (contexts {C!r})"
    else:
        if V != "0":
            return f"STORE answered {S} but the following QUERY shows {V} new row(s)"
    # --- accept <=> conforms
    want, times = conforms(fields, defined, etype_def, ctx, payload)
    if want is None:
        return None
    if want and S != "OK":
        return f"conforming STORE (per the property text) answered {S}"
    if not want and S == "OK":
        return "non-conforming STORE (per the property text) answered OK"
    if S == "OK":
        got = dict(x.split("=") for x in o.get("T", "").split(",") if x)
        for n, sec in times.items():
            g = got.get(n.encode("utf-8").hex())
            if g is not None and g != str(sec):
                return f"time field {n!r} stored as {g}, expected {sec}"
    return None


def judge_life(c, impl):
    """Histories with restarts: every answer is judged against the schemas that were ACCEPTED (first DEFINE of a
    type with at least one field); a restart changes nothing."""
    ops = _life_ops(c["line"])
    res = impl.split(",")
    if len(res) != len(ops) or any(r.startswith(("CRASH", "S=ERR", "D=ERR", "S=OTHER", "D=OTHER")) for r in res):
        return f"history answered {impl}"
    accepted = {}
    for k, (op, r) in enumerate(zip(ops, res)):
        if op[0] == "D":
            if op[1] in accepted:
                if r == "D=OK":
                    return f"step {k}: DEFINE of the already defined type {op[1]!r} answered OK"
            elif not op[2]:
                if r == "D=OK":
                    return f"step {k}: DEFINE without fields answered OK"
            else:
                if r != "D=OK":
                    return f"step {k}: DEFINE of the new type {op[1]!r} answered {r}"
                accepted[op[1]] = op[2]
        elif op[0] == "X":
            if r == "D=OK":
                return f"step {k}: malformed DEFINE line {op[1]!r} answered OK"
        elif op[0] == "S":
            fields = accepted.get(op[1], [])
            want, _ = conforms(fields, op[1] in accepted, True, op[2], op[3])
            if want is None:
                continue
            nres = sum(1 for o in ops[:k] if o[0] in "RC")
            if want and r != "S=OK":
                return (f"step {k} ({nres} restart(s) earlier): STORE conforming to the ACCEPTED schema of {op[1]!r} "
                        f"{fields!r} answered {r}: payload {op[3]!r}")
            if not want and r == "S=OK":
                return (f"step {k} ({nres} restart(s) earlier): STORE not conforming to the ACCEPTED schema of {op[1]!r} "
                        f"{fields!r} answered OK: payload {op[3]!r}")
    return None


def oracle(c, impl):
    return judge(c, impl)


def classify(c, impl):
    """No known-finding class is left for C06 (all three are fixed): every oracle failure is new."""
    return None


def nontrivial_key(c, impl):
    o = parse_out(impl)
    if c["line"].startswith("store_life"):
        return ("life", c.get("mut"), impl)
    if c["line"].startswith("store_spec"):
        return ("spec", impl) if impl and impl != "None" else None
    if o.get("D", o.get("D1")) != "OK" and o.get("D2") != "OK":
        return None
    if o.get("S") in (None, "EType", "ECtx", "ENoSchema"):
        return None
    return (c["line"].split()[0], c.get("types"), c.get("mut"), o.get("S"))


# ------------------------------------------------------------------ generators
def corpus():
    return base.corpus_for(PROP)


ALIAS_LIST = list(ALIASES)
NAMES = ["a", "b", "A", "f1", "naïve", "Ключ", "key with space", "x-y", "日付", "_u", "e", "ts", "n.m", "q?"]
ODD_NAMES = ["", "a\"b", "back\\slash", "tab\there", "k{", "k}", "{}"]
STRS = ["", "x", "hi", "1", "true", "null", "naïve", "日本語", "\U0001F680", "a b", " lead", "}", "{", "{}", "}{", "{{}", "a}b{c", "line\nbreak", "q\"uote", "back\\slash", " ", "\u0000"]
BAD_TIMES = ["", "x", "yesterday", "2024-13-01", "2024-02-30", "2024-01-01T25:00:00Z", "2024-01-01T00:00:00", "12:00", "1e3", "0x10",
             "99999999999999999999", "-10000000000000000000", "2024-01-01T00:00:00+24:00", "١٢٣", "2024/01/01", "T", "--", "+"]
ENUMS = [["x", "y"], ["Pro", "pro", "basic"], ["a b", "ü", "x"], ["on"], ["x", "x"], ["", "y"], ["{", "}"], ["null", "true", "1"]]
INT_EDGES = [0, 1, -1, 2, 255, 2 ** 31, 2 ** 53, 2 ** 53 + 1, I64_MAX, I64_MAX + 1, U64_MAX, I64_MIN, I64_MIN + 1, -2 ** 53 - 1,
             10 ** 11 - 1, 10 ** 11, 10 ** 14, 10 ** 16, 10 ** 18, 10 ** 19 - 1, 10 ** 19, -10 ** 18, -(10 ** 19 - 1) // 2]
FLOAT_EDGES = [0.0, -0.0, 1.0, -1.0, 0.5, -0.5, 1.5, 1e15, 1e16, 2.0 ** 53, 2.0 ** 63, -2.0 ** 63, 2.0 ** 64, 9.223372036854775e18,
               -9.223372036854777e18, 1e19, -1e19, 1e300, -1e300, 5e-324, 1.7976931348623157e308, 1e-7, 123456.789, 1700000000.25, -1.25]
CTX_ODD = ["", " ", "\t\n", "\u00a0", "\u3000 ", "\u2003\u2003", "\u200b", "\u001f", " c", "c d", "\u00fc", "c{", "}", "ctx-1", "_x", "9lives"]


def gen_spec(rng, want=None):
    """(spec string) for a primitive field; mostly well formed."""
    a = want or rng.choice(ALIAS_LIST)
    r = rng.below(10)
    if r < 1:
        a = a.upper()
    elif r < 2:
        a = a.capitalize()
    r = rng.below(20)
    if r < 10:
        return a
    if r < 14:
        return a + rng.choice([" | ", "|", " |", "  |  "]) + rng.choice(["null", "null", "NULL", "Null"])
    if r < 16:
        return rng.choice(["null", "NULL"]) + rng.choice([" | ", "|"]) + a
    return rng.choice([a + " | " + rng.choice(ALIAS_LIST), " " + a, a + " ", "foo", "foo | null", "null", "null | null", "| " + a, a + " |",
                       a + " | null", "\u00a0" + a + "\u3000|\u0085null", a + " | null | " + rng.choice(ALIAS_LIST), a + "|null|null",
                       a + "\u200b | null", "\u2003" + a + "\u2003|\u1680null\u205f", "", "|", "in t", a + " | nul", a + "\u00a0"])


def gen_schema(rng):
    n = rng.choice([1, 1, 2, 2, 3, 3, 4, 5])
    names = []
    pool = NAMES + (ODD_NAMES if rng.chance(1, 8) else [])
    while len(names) < n:
        x = rng.choice(pool)
        if x not in names:
            names.append(x)
    fields = []
    for nm in names:
        if rng.chance(1, 5):
            fields.append((nm, list(rng.choice(ENUMS))))
        else:
            fields.append((nm, gen_spec(rng)))
    return fields


def gen_time_ok(rng):
    t = rng.choice([0, 1, -1, 86399, 951782400, 1704067200, 4102444800, -2208988800, rng.range(-3 * 10 ** 9, 5 * 10 ** 9)])
    r = rng.below(10)
    if r < 4:
        off = rng.choice([0, 0, 3600, -3600, 19800, -28800, 86340, -86340])
        loc = EPOCH + datetime.timedelta(seconds=t + off)
        s = f"{loc.year:04d}-{loc.month:02d}-{loc.day:02d}{rng.choice('TTt ')}{loc.hour:02d}:{loc.minute:02d}:{loc.second:02d}"
        if rng.chance(1, 3):
            s += "." + str(rng.below(10 ** rng.range(1, 9))).zfill(1)
        if off == 0 and rng.chance(2, 3):
            s += rng.choice("Zz")
        else:
            a = abs(off)
            s += ("+" if off >= 0 else "-") + f"{a // 3600:02d}:{a % 3600 // 60:02d}"
        return rng.choice(["", "", " ", " "]) + s
    if r < 5:
        d = EPOCH + datetime.timedelta(seconds=t - t % 86400)
        return f"{d.year:04d}-{d.month:02d}-{d.day:02d}"
    if r < 6:
        return str(t * rng.choice([1, 1000, 10 ** 6, 10 ** 9]))
    if r < 8:
        n = t * rng.choice([1, 1, 1000, 10 ** 6, 10 ** 9]) + rng.below(1000)
        return max(I64_MIN, min(U64_MAX, n)) if abs(n) < 10 ** 19 else t
    return rng.choice([float(t), t + 0.5, t + 0.999, -0.0, 1e15, 9.2e18, -9.2e18, -9.223372036854775808e18])


def gen_value_ok(rng, d, spec):
    base_t, opt = d
    if opt and rng.chance(1, 4):
        return None
    if base_t == "String":
        return rng.choice(STRS)
    if base_t == "Bool":
        return rng.chance(1, 2)
    if base_t == "U64":
        return rng.choice([0, 1, 2 ** 63, U64_MAX, I64_MAX, rng.below(2 ** 64), rng.below(1000)])
    if base_t == "I64":
        return rng.choice([0, -1, I64_MIN, I64_MAX, rng.range(I64_MIN, I64_MAX), rng.range(-1000, 1000)])
    if base_t == "F64":
        return rng.choice([rng.choice(FLOAT_EDGES), rng.choice(INT_EDGES), rng.range(-10 ** 6, 10 ** 6) / 64.0])
    if base_t == "enum":
        return rng.choice(spec) if spec else "x"
    return gen_time_ok(rng)


def any_value(rng):
    r = rng.below(12)
    if r == 0:
        return None
    if r == 1:
        return rng.chance(1, 2)
    if r < 4:
        return rng.choice(INT_EDGES)
    if r < 6:
        return rng.choice(FLOAT_EDGES)
    if r < 8:
        return rng.choice(STRS)
    if r == 8:
        return rng.choice(BAD_TIMES)
    if r == 9:
        return rng.choice([[], [1], ["x", None], [[1]], [{"a": 1}]])
    if r == 10:
        return rng.choice([{}, {"a": 1}, {"a": {"b": "}"}}, {"{": "x"}])
    return gen_time_ok(rng)


def gen_payload(rng, fields):
    """A payload that conforms where the text decides, then 0..2 mutations. Returns (payload, [mutation kinds])."""
    p = {}
    for n, s in fields:
        d = declared(s)
        if d is None:
            p[n] = any_value(rng) if rng.chance(1, 2) else rng.choice(STRS)
        else:
            if d[1] and rng.chance(1, 4):
                continue
            p[n] = gen_value_ok(rng, d, s)
    muts = []
    k = rng.choice([0, 0, 0, 1, 1, 1, 1, 2])
    names = [n for n, _ in fields]
    for _ in range(k):
        m = rng.choice(["missing", "extra", "misspell", "anyval", "anyval", "anyval", "wrongcase", "badtime", "floatint", "boundary", "nested", "notobject", "hugetime"])
        f = rng.choice(names)
        if m in ("badtime", "hugetime"):
            tf = [n for n, sp in fields if (declared(sp) or ("", False))[0] in ("Timestamp", "Date")]
            if tf:
                f = rng.choice(tf)
        if m == "missing":
            p.pop(f, None)
        elif m == "extra":
            p[rng.choice(["zz", f + "_", "context_id", ""])] = any_value(rng)
        elif m == "misspell":
            if f in p:
                v = p.pop(f)
                p[rng.choice([f.upper() if f.upper() != f else f.lower(), f + "s", " " + f, f[:-1]])] = v
        elif m == "anyval":
            p[f] = any_value(rng)
        elif m == "wrongcase":
            en = [(n, s) for n, s in fields if isinstance(s, list) and s]
            if en:
                n, s = rng.choice(en)
                v = rng.choice(s)
                p[n] = rng.choice([v.upper(), v.capitalize(), v.swapcase(), v + " ", " " + v])
        elif m == "badtime":
            p[f] = rng.choice(BAD_TIMES)
        elif m == "hugetime":
            p[f] = rng.choice([1e19, -1e19, 1e300, -1e300, 2.0 ** 63, 9.3e18, -9.3e18, 1.7976931348623157e308, 10 ** 19, U64_MAX, 10 ** 19 - 1])
        elif m == "floatint":
            p[f] = rng.choice([1.0, 0.0, -0.0, -5.0, 2.0 ** 53, 1e3, 7, 0, -7])
        elif m == "boundary":
            p[f] = rng.choice(INT_EDGES)
        elif m == "nested":
            p[f] = rng.choice([[p.get(f)], {"v": p.get(f)}, [], {}])
        elif m == "notobject":
            muts.append(m)
            return rng.choice([[p], "x", 1, None, True, [], 1.5]), muts
        muts.append(m)
    # key order of the text = insertion order; shuffle a little
    items = list(p.items())
    if rng.chance(1, 2) and len(items) > 1:
        i, j = rng.below(len(items)), rng.below(len(items))
        items[i], items[j] = items[j], items[i]
    return dict(items), muts


def types_key(fields):
    out = []
    for n, s in fields:
        d = declared(s)
        out.append("?" if d is None else d[0] + ("?" if d[1] else ""))
    return ",".join(sorted(out))


def render(v, rng):
    """python value -> (json text, uses '+' in an exponent)."""
    plus = [False]
    sep_c = rng.choice([",", ",", ", ", " ,\t"])
    sep_k = rng.choice([":", ":", ": ", " : "])

    def r(x):
        if x is None:
            return "null"
        if x is True:
            return "true"
        if x is False:
            return "false"
        if isinstance(x, int):
            return str(int(x))
        if isinstance(x, float):
            t = repr(x)
            if "e+" in t:
                if rng.chance(1, 2):
                    t = t.replace("e+", "e")
                else:
                    plus[0] = True
            if "e" in t and rng.chance(1, 4):
                t = t.replace("e", "E")
            return t
        if isinstance(x, str):
            return json.dumps(x, ensure_ascii=rng.chance(1, 3))
        if isinstance(x, list):
            return "[" + sep_c.join(r(y) for y in x) + "]"
        return "{" + sep_c.join(json.dumps(k, ensure_ascii=False) + sep_k + r(y) for k, y in x.items()) + "}"
    t = r(v)
    if rng.chance(1, 6):
        t = t[0] + " " + t[1:-1] + rng.choice([" ", "\n"]) + t[-1]
    return t, plus[0]


def text_safe(x):
    return not any(ch in '"\\' or ord(ch) < 32 for ch in x)


def _show_op(op):
    k, body = op[0], op[1:]
    if k == "D":
        et, tok = body.split(":", 1)
        return f"DEFINE {unhx(et).decode()} {un_sch(tok)!r}"
    if k == "X":
        return unhx(body).decode()
    if k in "RC":
        return "RESTART(kill)" if k == "R" else "RESTART(clean)"
    et, ctx, js = body.split(":")
    return f"STORE {unhx(et).decode()} {unjt(js)!r}"


IDENT = re.compile(r"^[a-zA-Z_][a-zA-Z0-9_-]*$")


def cases(rng, tier):
    scale = 1 if tier == "quick" else 150
    out = []

    def add(kind, line, show, types=None, mut=None):
        out.append({"kind": kind, "line": line, "show": show, "types": types, "mut": ",".join(mut or [])})

    # --- the spec parser on its own
    for a in ALIAS_LIST:
        for s in (a, a.upper(), a.capitalize(), a + " | null", "null | " + a, a + "|NULL", " " + a, a + " | string"):
            add("spec", f"store_spec {hx(s)}", s)
    for _ in range(150 * scale):
        s = gen_spec(rng)
        add("spec", f"store_spec {hx(s)}", s)

    # --- schemas x payloads, Command built directly
    for si in range(45 * scale):
        fields = gen_schema(rng)
        if rng.chance(1, 40):
            fields = []
        if rng.chance(1, 40):
            fields = fields + [(rng.choice(NAMES) + "!", [])]   # enum without variants (Command level only)
        st, tk = sch_tok(fields), types_key(fields)
        for pi in range(40):
            payload, muts = gen_payload(rng, fields) if fields else ({}, [])
            r = rng.below(30)
            ctx = rng.choice(CTX_ODD) if r < 3 else f"c{si}-{pi}"
            et = "=" if r != 3 else hx(rng.choice(["nope", "", " ", "Vt1", "vt", "\u00a0", "vt1x"]))
            if r == 3:
                muts = muts + ["othertype"]
            if r < 3:
                muts = muts + ["oddctx"]
            add("case", f"store_case {st} {et} {hx(ctx)} {jt(payload)}",
                f"schema={fields!r} ctx={ctx!r} type={'=' if et == '=' else unhx(et).decode()!r} payload={payload!r}", tk, muts)

    # --- the same through the command line
    for si in range(25 * scale):
        fields = gen_schema(rng)
        st, tk = sch_tok(fields), types_key(fields)
        for pi in range(30):
            payload, muts = gen_payload(rng, fields)
            if not isinstance(payload, dict):
                continue
            r = rng.below(30)
            ctx = rng.choice([c for c in CTX_ODD if '"' not in c and "\\" not in c]) if r < 3 else f"t{si}-{pi}"
            mode = "u" if IDENT.match(ctx) and rng.chance(1, 2) else "q"
            et = "=" if r != 3 else hx(rng.choice(["nope", "Vt1", "vt", "no-such_type"]))
            if rng.chance(1, 25):
                # an integer literal beyond u64 / below i64: serde_json keeps it as a float
                big = rng.choice([U64_MAX + 1, I64_MIN - 1, 10 ** 25, -10 ** 30, 123456789012345678901234567890])
                payload[rng.choice([n for n, _ in fields])] = BigLit(big)
                muts = muts + ["bigint"]
            text, plus = render(payload, rng)
            if plus:
                muts = muts + ["plusexp"]
            if has_brace(payload):
                muts = muts + ["brace"]
            add("text", f"store_text {st} {et} {mode}{hx(ctx)} {hx(text)} {jt(payload)} {1 if plus else 0}",
                f"schema={fields!r} STORE <type> FOR {ctx!r} PAYLOAD {text}", tk, muts)

    # --- payload texts that are not valid JSON: unclosed nested braces, stray braces, with and without strings
    #     (the `{ a { b }` family; 04c7300 changed how the grammar fails on them, the answer must stay a parse error
    #     and nothing may be stored)
    BAD_TEXTS = ['{ a { b }', '{ a { b', '{ { }', '{ {', '{"a":1,{"b":2}', '{"a":{"b":1}', '{"a":{"b":{"c":1}}', '{"a":1}}',
                 '{"a":1} }', '{"a":1}{', '{"a":"x"} {"a":"y"}', '{"a":"{"', '{"a":"}', '{"a":"\\"}"', '{"a":{ "s":"}" }',
                 '{ a { b } }', '{{}}', '{"a":1,"b":{}', '{"a":[{]}', '{"a":1,}', '{,}', '{"a" 1}', '{"a":"x" "b":1}', '{"a":tru}']
    for bi in range(len(BAD_TEXTS) * scale if tier == "quick" else 6 * len(BAD_TEXTS)):
        fields = gen_schema(rng)
        text = BAD_TEXTS[bi % len(BAD_TEXTS)]
        if rng.chance(1, 3):
            text = text.replace("{", "{" * rng.range(1, 3), 1) if rng.chance(1, 2) else text + rng.choice([" ", "{", '"'])
            try:
                json.loads(text)
                continue
            except ValueError:
                pass
        ctx = f"b{bi}"
        add("badtext", f"store_text {sch_tok(fields)} = {rng.choice('qu')}{hx(ctx)} {hx(text)} ! 0",
            f"schema={fields!r} STORE <type> FOR {ctx!r} PAYLOAD {text}", types_key(fields), ["notjson"])

    # --- histories with restarts on one data directory (vharn life): the schema in force after a restart
    def safe_schema():
        for _ in range(50):
            f = gen_schema(rng)
            if all(text_safe(n) for n, _ in f) and all(text_safe(x) for _, sp in f for x in (sp if isinstance(sp, list) else [sp])) \
                    and all(sp for _, sp in f if isinstance(sp, list)):
                return f
        return [("a", "int")]

    def conforming(fields):
        for _ in range(20):
            p, m = gen_payload(rng, fields)
            if not m and isinstance(p, dict):
                return p
        return {}

    def S(et, fields, k):
        """two STOREs per call site: one conforming to `fields`, one mutated"""
        p1 = conforming(fields)
        p2, _ = gen_payload(rng, fields)
        out = [f"S{hx(et)}:{hx(f'L{k}a')}:{jt(p1)}"]
        if isinstance(p2, dict):
            out.append(f"S{hx(et)}:{hx(f'L{k}b')}:{jt(p2)}")
        return out

    def D(et, fields):
        return f"D{hx(et)}:{sch_tok(fields)}"

    BAD_DEFINES = ['DEFINE {t} FIELDS {{ }}', 'DEFINE 9{t} FIELDS {{ "a": "int" }}', 'DEFINE {t} FIELDS {{ "a": {{ "b": "int" }} }}',
                   'DEFINE {t} FIELDS {{ "a": 5 }}', 'DEFINE {t} FIELDS {{ "a": [] }}', 'DEFINE {t} FIELDS {{ "a": "int"',
                   'DEFINE {t} AS x FIELDS {{ "a": "int" }}', 'DEFINE {t} {{ "a": "int" }}']
    n_life = 28 if tier == "quick" else 400
    for li in range(n_life):
        R = lambda: rng.choice("RC")
        f1, f2 = safe_schema(), safe_schema()
        if rng.chance(1, 2):
            # same field names, other types: the payload of one schema is a near miss of the other
            f2 = [(n, rng.choice(["string", "int", "bool", "float | null", ["x", "y"]])) for n, _ in f1]
        ops, mut = [], ""
        shape = li % 7
        if shape == 0:      # the reported family: DEFINE, rejected re-DEFINE with another field set, restart, STOREs for both
            ops = [D("t", f1), D("t", f2)] + ([D("u", safe_schema())] if rng.chance(1, 2) else []) + [R()] + S("t", f1, 0) + S("t", f2, 1)
            mut = "redefine-restart"
        elif shape == 1:    # accepted DEFINE survives restarts; a re-DEFINE after the restart is still rejected
            ops = [D("t", f1), R()] + S("t", f1, 0) + [D("t", f2), R()] + S("t", f1, 1) + S("t", f2, 2) + [R()] + S("t", f1, 3)
            mut = "accepted-survives"
        elif shape == 2:    # many types
            n = rng.range(3, 7)
            fs = [safe_schema() for _ in range(n)]
            ops = [D(f"t{j}", fs[j]) for j in range(n)] + [D(f"t{rng.below(n)}", f2), R()]
            for j in range(n):
                ops += S(f"t{j}", fs[j], j)[:1]
            ops += [R()] + S(f"t{rng.below(n)}", f2, 9)
            mut = "many-types"
        elif shape == 3:    # DEFINE lines rejected before the registry (malformed), then restart
            bad = rng.choice(BAD_DEFINES).format(t="t")
            ops = [f"X{hx(bad)}", R()] + S("t", f1, 0)[:1] + [D("t", f1), f"X{hx(rng.choice(BAD_DEFINES).format(t='t'))}", R()] + S("t", f1, 1)
            mut = "malformed-define"
        elif shape == 4:    # a type string that is not a type declares a string field, before and after the restart
            fu = [("a", rng.choice(["foo", "foo | null", " int", "null", "int | float"])), ("b", "bool | null")]
            ops = [D("t", fu)] + S("t", fu, 0) + [f"S{hx('t')}:{hx('Lx')}:{jt({'a': 'x'})}", f"S{hx('t')}:{hx('Ly')}:{jt({'a': 1})}", R(),
                   f"S{hx('t')}:{hx('Lz')}:{jt({'a': 'x'})}", f"S{hx('t')}:{hx('Lw')}:{jt({'a': 1})}"] + S("t", fu, 1)
            mut = "unknown-type-string"
        elif shape == 5:    # rejected DEFINEs only (empty schema is unreachable on the command line; duplicates of every kind)
            ops = [D("t", f1), D("t", f1), D("t", f2), D("T", f2), R(), D("t", f2), R(), R()] + S("t", f1, 0) + S("t", f2, 1) + S("T", f2, 2)
            mut = "duplicates"
        else:               # random mix
            types = ["t", "u", "v"]
            for k in range(rng.range(6, 12)):
                r = rng.below(10)
                et = rng.choice(types)
                if r < 3:
                    ops.append(D(et, safe_schema()))
                elif r < 5:
                    ops.append(R())
                else:
                    ops += S(et, rng.choice([f1, f2]), k)[:1]
            ops += [R()] + S("t", f1, 20) + S("u", f2, 21)
            mut = "mix"
        add("life", "store_life " + ";".join(ops), f"history {mut}: " + " ; ".join(_show_op(o) for o in ops), "life", [mut])

    # --- DEFINE twice, then STORE: the first schema stays in force
    for si in range(60 * scale):
        f1 = gen_schema(rng)
        f2 = gen_schema(rng) if rng.chance(2, 3) else [(n, rng.choice(["string", "int", "bool | null"])) for n, _ in f1]
        if rng.chance(1, 12):
            f1 = []
        if rng.chance(1, 6):
            f2 = []
        for pi in range(3):
            src = f1 if (pi != 1 or not f2) else f2      # a payload shaped for the first or for the second schema
            payload, muts = gen_payload(rng, src) if src else ({}, [])
            add("redef", f"store_redef {sch_tok(f1)} {sch_tok(f2)} {hx(f'r{si}-{pi}')} {jt(payload)}",
                f"DEFINE {f1!r}; DEFINE {f2!r}; payload={payload!r}", types_key(f1), muts + ["for2" if src is f2 else "for1"])
    return out


def _answers(out):
    """the D=/D1=/D2=/S= part of a probe answer (what the STORE / DEFINE commands were answered with)"""
    return " ".join(t for t in (out or "").split() if t.split("=")[0] in ("D", "D1", "D2", "S")) or (out or "")


def _case_ctx(line):
    t = line.split()
    if t[0] in ("store_case", "store_redef"):
        return t[3]
    if t[0] == "store_text":
        return t[3][1:]
    return None


def _run_fn_sides(cases_, model_ok, tmo=1700):
    """Implementation side twice.  Pass 1: a memtable that never fills; its answers are what the model is
    compared with and what the oracle judges in full (answer, exactly one / no new row, stored times).
    Pass 2: a 4-event memtable, so the history crosses many flushes.  From pass 2 only what C06 claims is used:
    the answers to DEFINE and STORE must be the same as in pass 1, and no row read back at any point may carry
    the context id of a STORE that was rejected (a trace of a rejected STORE).  Whether every accepted event is
    read back exactly once across flushes is C03/C07's subject: pass 2 shows that it is not (see notes/C06.md)
    and the number of such cases is printed as a NOTE, not judged here."""
    lines = [c["line"] for c in cases_]
    # engine directories on tmpfs when there is one: the flushing pass creates (and the cleanup deletes) a
    # few hundred thousand small files, which is slow on a disk mounted with discard
    os.makedirs(vlib.WORK, exist_ok=True)
    base_dir = "/dev/shm" if os.path.isdir("/dev/shm") and os.access("/dev/shm", os.W_OK) else vlib.WORK
    d = tempfile.mkdtemp(prefix="c06-", dir=base_dir)
    try:
        # an unfiltered QUERY scans the whole memtable of a shard, so the cost per process is quadratic in its
        # number of cases: many short-lived processes (run_lines caps them at one per 50 cases)
        impl = vlib.run_lines(vlib.VHARN, ["fn"], lines, timeout=tmo, shards=96,
                              env={"VHARN_STORE_DIR": d, "VHARN_STORE_FLUSH": "0"})
        shutil.rmtree(d, ignore_errors=True)
        os.makedirs(d, exist_ok=True)
        # the flushing pass writes a segment every 4 events: in large runs it covers an evenly spread subset
        stride = max(1, -(-len(lines) // 60000))
        idx = list(range(0, len(lines), stride))
        sub = vlib.run_lines(vlib.VHARN, ["fn"], [lines[i] for i in idx], timeout=tmo, shards=32,
                             env={"VHARN_STORE_DIR": d, "VHARN_STORE_FLUSH": "1"})
    finally:
        shutil.rmtree(d, ignore_errors=True)
    impl = list(impl)
    # contexts of rejected and of accepted STOREs in pass 2 (a context used by both is not evidence of anything)
    rejected, accepted = {}, set()
    for i, o in zip(idx, sub):
        cx = _case_ctx(lines[i])
        if cx is None or cx == "-":
            continue
        if parse_out(o).get("S") == "OK":
            accepted.add(cx)
        else:
            rejected.setdefault(cx, i)
    unstable = 0
    for i, o in zip(idx, sub):
        a = impl[i] or ""
        if _answers(o) != _answers(a):
            impl[i] = f"{a} FLUSH=answers:{(o or '').replace(' ', '_')}"
            continue
        if o != a:
            unstable += 1
        for h in parse_out(o).get("C", "").split(","):
            hh = h if h else "-"
            if hh in rejected and hh not in accepted and h:
                impl[i] = f"{a} FLUSH=trace-of-rejected-context:{h}"
    if unstable:
        print(f"NOTE: C06 flush pass: in {unstable} of {len(idx)} cases the rows read back across flushes differ from the "
              f"no-flush pass (missing / late / phantom rows - C03/C07's subject, not judged by C06)")
    model = vlib.run_lines(vlib.MODEL_RUN, [], lines, timeout=tmo) if model_ok else [None] * len(lines)
    return impl, model


# ------------------------------------------------------------------ restart histories (`vharn life`)
def _life_answer(r):
    """canonical answer of one command run through `vharn life` (same enums as the Rust probe)"""
    if "parse_error" in r or "panic" in r:
        return "PARSE"
    if r.get("error"):
        return "ERR(" + str(r["error"])[:40].replace(" ", "_").replace(",", "_") + ")"
    st = engine.parse_stream(r)
    status, m = st["status"], st.get("message") or ""
    if status == 200:
        return "OK"
    table = [("event_type cannot be empty", "EType"), ("context_id cannot be empty", "ECtx"), ("No schema defined for event type", "ENoSchema"),
             ("Payload must be a JSON object", "ENotObject"), ("Field '", "EField"), ("Missing field '", "EField"),
             ("Payload contains fields not defined in schema", "EExtra"), ("Invalid time string", "ETime"),
             ("Unrecognized integer time magnitude", "ETime"), ("Unsupported numeric time value", "ETime"),
             ("Time field must be a number or string", "ETime"), ("Float time value out of range", "ETime")]
    for pre, name in table:
        if m.startswith(pre):
            return name if status == 400 else f"{name}@{status}"
    if "already defined" in m:
        return "AlreadyDefined"
    if "Schema cannot be empty" in m:
        return "EmptySchema"
    return f"OTHER({status}_{m[:40].encode().hex()})"


def _define_text(et, fields):
    body = []
    for n, sp in fields:
        if isinstance(sp, list):
            body.append(json.dumps(n, ensure_ascii=False) + ": [" + ", ".join(json.dumps(v, ensure_ascii=False) for v in sp) + "]")
        else:
            body.append(json.dumps(n, ensure_ascii=False) + ": " + json.dumps(sp, ensure_ascii=False))
    return f"DEFINE {et} FIELDS {{ " + ", ".join(body) + " }"


def _life_ops(line):
    out = []
    for op in line.split()[1].split(";"):
        k, body = op[0], op[1:]
        if k == "D":
            et, tok = body.split(":", 1)
            out.append(("D", unhx(et).decode(), un_sch(tok)))
        elif k == "X":
            out.append(("X", unhx(body).decode()))
        elif k in "RC":
            out.append((k,))
        elif k == "S":
            et, ctx, js = body.split(":")
            out.append(("S", unhx(et).decode(), unhx(ctx).decode(), unjt(js)))
    return out


def run_life(line):
    """One history on one private data directory through `vharn life` (tools/engine.py): every DEFINE / STORE is a
    command line; R = kill the process and start a new one on the same directory, C = the same after a clean exit."""
    e = engine.Engine(shards=1, fill_factor=100, event_per_zone=1000)
    res = []
    try:
        e.start()
        for op in _life_ops(line):
            if op[0] == "D":
                res.append("D=" + _life_answer(e.cmd(_define_text(op[1], op[2]))))
            elif op[0] == "X":
                res.append("D=" + _life_answer(e.cmd(op[1])))
            elif op[0] == "R":
                e.restart(clean=False)
                res.append("R")
            elif op[0] == "C":
                e.restart(clean=True)
                res.append("R")
            else:
                text = f"STORE {op[1]} FOR {json.dumps(op[2], ensure_ascii=False)} PAYLOAD {json.dumps(op[3], ensure_ascii=False)}"
                res.append("S=" + _life_answer(e.cmd(text)))
        return ",".join(res)
    except Exception as ex:
        return ",".join(res + [f"CRASH({type(ex).__name__})"])
    finally:
        e.destroy()


def run_sides(cases_, model_ok, tmo=1700):
    life = [i for i, c in enumerate(cases_) if c["line"].startswith("store_life ")]
    lset = set(life)
    fn = [i for i in range(len(cases_)) if i not in lset]
    impl, model = [None] * len(cases_), [None] * len(cases_)
    fi, fm = _run_fn_sides([cases_[i] for i in fn], model_ok, tmo)
    for i, a, b in zip(fn, fi, fm):
        impl[i], model[i] = a, b
    if life:
        import concurrent.futures
        with concurrent.futures.ThreadPoolExecutor(max_workers=8) as ex:
            li = list(ex.map(run_life, [cases_[i]["line"] for i in life]))
        lm = vlib.run_lines(vlib.MODEL_RUN, [], [cases_[i]["line"] for i in life], timeout=tmo) if model_ok else [None] * len(life)
        for i, a, b in zip(life, li, lm):
            impl[i], model[i] = a, b
    return impl, model


def same(c, impl, model):
    return impl == model
