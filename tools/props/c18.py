"""C18 — event ids are unique and increase in append order within a shard."""
import re
import vlib
from props import base

PROP = "C18"
PROPS_V = "theories/Props/C18.v"
THEOREMS = [
    "C18_params_side_conditions", "C18_ids_strictly_increasing", "C18_ids_unique_in_lifetime",
    "C18_pack_injective", "C18_unique_across_shards", "C18_recovery_reproduces_ids", "C18_issued_nonzero",
    "C18_across_restart_refuted", "C18_across_restart_order_refuted", "C18_across_restart_outside_known",
    "C18_unique_ids_all_rows_visible", "C18_visible_after_restart_outside_known", "C18_restart_drops_rows_refuted",
    "C18_before_epoch_refuted", "C18_beyond_window_refuted", "C18_shard_tag_aliases",
    "C18_synthetic_collide", "C18_synthetic_injective", "C18_row_ids_outside_known",
]
RULE = ("clock scripts (millisecond readings: monotone, repeated, stepping backwards, random walks, bursts of more than "
        "4096 calls inside one millisecond with repeated/backward readings during the wait, readings at / before the "
        "epoch, at / beyond epoch+2^42, near 2^64) x shard ids (0, 1, 1023, 1024, 65535, random) x 1..3 generator "
        "lifetimes; real ShardContext lifetimes over a real WAL directory (hand-written WAL with zero / missing ids; "
        "two lifetimes through the WAL writer and WalRecovery); candidate zones with and without an event_id column. "
        "A case is non-trivial when at least two ids were produced; distinct by (kind, produced ids)")
ASSUMPTIONS = [
    "the clock is an oracle (list of readings); a run that needs more readings than the oracle holds is not modelled (the real wait loop would keep spinning)",
    "engine level (event_id column of QUERY/REPLAY across flush/compaction/restart in separate processes) is not probed here; ShardContext lifetimes run inside one process with the WAL writer task and WalRecovery of the real code",
    "that on_store / WAL recovery only replace a zero id, and that the WAL entry stores the event's id, is checked textually by the translator (tools/params/p21_event_id_next.py)",
    "synthetic row ids: the branch needs a zone whose event_id column is missing or zero; the flush path always writes the column, so it is exercised at function level only (latent)",
]
TRUSTED = [
    "Coq 8.16.1 kernel + coqc; vm_compute for closed witnesses and Params side conditions; no native_compute",
    "translator tools/gen_params.py + tools/params/p20_event_id.py, p21_event_id_next.py (bit widths, epoch, cast width, synthetic shift and the control flow of next()/wait_next_millis read from the Rust text)",
    "extraction: ExtrOcamlBasic only; ocaml/driver.ml, conv.ml, p_eventid.ml (parsing/printing)",
    "correspondence harness /verif/harness (vharn fn eid_*) built against /repo with --cfg sneldb_verif; hook verif_hooks::set_clock_script_ms feeds EventIdGenerator's private clock",
    "python oracle: integer comparisons on the ids printed by the implementation (independent of the model)",
]

CLAIMED = True
MANIFEST = {
 "level_text": "Theorems (unbounded): for every number of calls, shard id and clock reading sequence inside [epoch, epoch+2^42) - repeated, backwards, bursts beyond 4096/ms - the ids of one generator lifetime strictly increase; the packing is injective; two shards (ids < 1024) never share an id; WAL recovery returns stored non-zero ids unchanged. Across a restart the property is refuted on the model (fresh generator re-issues / undercuts ids when the clock has not advanced past the last used millisecond; witness reproduced on the real ShardContext + WAL) and proved outside that class; outside the 42-bit window (clock at/before the epoch, or 2^42 ms after it) ids collide/wrap (refuted with witnesses). Bit widths, epoch and the shape of next() are regenerated from the Rust text; the extracted model is run against the real generator under a scripted clock, real ShardContext lifetimes over a real WAL, and ConditionEvaluator's synthetic ids.",
 "design_ref": "DESIGN.md §6 C18",
 "level_note": "Trusted: Coq kernel; tools/gen_params.py; ExtrOcamlBasic extraction + OCaml driver; the Rust harness and the clock hook; the python oracle. The clock is an oracle list; tokio/WAL file system behaviour is exercised, not modelled. Engine-level (QUERY/REPLAY event_id column over flush/compaction) is not covered by this check."
}

E = 1_609_459_200_000          # overwritten from Gen/Params.v when available
TSB, SHB, SQB = 42, 10, 12


def _load_params():
    global E, TSB, SHB, SQB
    try:
        t = open(vlib.COQ + "/theories/Gen/Params.v").read()
        g = lambda n: int(re.search(r"Definition " + n + r" : N := (\d+)%N", t).group(1))
        E, TSB, SHB, SQB = g("id_epoch_ms"), g("id_ts_bits"), g("id_shard_bits"), g("id_seq_bits")
    except Exception:
        pass


_load_params()
W = 1 << TSB
SEQN = 1 << SQB
U64 = 1 << 64


def corpus():
    return base.corpus_for(PROP)


# ------------------------------------------------------------------ scripts
def rle(rs):
    """Compress a list of readings into tokens v | vxc | v+c."""
    out, i, n = [], 0, len(rs)
    while i < n:
        j = i
        while j + 1 < n and rs[j + 1] == rs[i]:
            j += 1
        if j - i >= 2:
            out.append(f"{rs[i]}x{j - i + 1}")
            i = j + 1
            continue
        j = i
        while j + 1 < n and rs[j + 1] == rs[j] + 1:
            j += 1
        if j - i >= 3:
            out.append(f"{rs[i]}+{j - i + 1}")
            i = j + 1
            continue
        out.append(str(rs[i]))
        i += 1
    return out or ["-"]


def script(rng, kind, base_ms):
    """A clock prefix of the given kind, starting around base_ms. Returns a list of readings."""
    n = rng.range(1, 24)
    if kind == "mono":
        rs, t = [], base_ms
        for _ in range(n):
            t += rng.choice([0, 1, 1, 2, 5, 1000, rng.range(0, 50)])
            rs.append(t)
        return rs
    if kind == "repeat":
        rs, t = [], base_ms
        for _ in range(rng.range(1, 5)):
            rs += [t] * rng.range(1, 12)
            t += rng.choice([0, 1, 2, 7])
        return rs
    if kind == "backward":
        rs, t = [], base_ms + rng.range(0, 2000)
        for _ in range(n):
            t = max(base_ms - 3000, t + rng.choice([-1, -1, -5, -1000, 0, 1, 2, -rng.range(0, 3000), rng.range(0, 3000)]))
            rs.append(t)
        return rs
    if kind == "walk":
        return [base_ms + rng.range(0, 40) for _ in range(n)]
    if kind == "burst":
        # more calls than sequence numbers inside one millisecond; during the wait the clock repeats,
        # steps back, and finally advances
        t = base_ms + rng.range(0, 5)
        rs = [t] * (SEQN + rng.range(0, 3))
        rs += [rng.choice([t, t, t - 1, t - rng.range(0, 500)]) for _ in range(rng.range(0, 6))]
        rs += [t + rng.range(1, 3)] * rng.range(1, 3)
        if rng.chance(1, 3):
            rs += [t + 3] * (SEQN + 2)
        return rs
    raise ValueError(kind)


def finish_script(rs, k=None):
    """Number of calls k and the final script: prefix + a strictly advancing tail of k readings above
    everything before, so that k calls never exhaust the oracle (each call consumes at least one reading;
    once in the tail, exactly one)."""
    if k is None:
        k = len(rs)
    top = max(rs) if rs else E + 1
    return k, rs + [top + 1 + i for i in range(k)]


SHARDS = [0, 0, 1, 2, 3, 7, 512, 1023, 1024, 1025, 2047, 65535]


def cases(rng, tier):
    mult = 1 if tier == "quick" else 25
    out = []

    def add(kind, line, **kw):
        c = {"kind": kind, "line": line}
        c.update(kw)
        out.append(c)

    def one_life(kind, base_ms, calls=None):
        rs = script(rng, kind, base_ms)
        k = calls if calls is not None else rng.range(1, len(rs) + 2)
        k, full = finish_script(rs, k)
        return k, full

    def life_tokens(k, full):
        return [str(k)] + rle(full)

    # ---- single lifetime, in window
    for _ in range(260 * mult):
        kind = rng.choice(["mono", "repeat", "backward", "walk", "walk", "backward"])
        sh = rng.choice(SHARDS + [rng.below(65536)])
        base_ms = rng.choice([E + 3000, E + 3000 + rng.below(10 ** 9), E + rng.below(W - 10 ** 7) + 3000, 1_790_000_000_000 + rng.below(10 ** 9)])
        k, full = one_life(kind, base_ms)
        add("life_" + kind, "eid_run %d %s" % (sh, " ".join(life_tokens(k, full))), readings=[full], shard=sh)
    for _ in range(6 * mult):
        sh = rng.choice(SHARDS)
        rs = script(rng, "burst", E + 10 ** 6 + rng.below(10 ** 11))
        k, full = finish_script(rs, len(rs) + rng.range(0, 3))
        add("life_burst", "eid_run %d %s" % (sh, " ".join(life_tokens(k, full))), readings=[full], shard=sh)
    # window edges (in window): exactly the epoch, the last millisecond of the window
    for sh in (0, 1, 1023):
        for rs in ([E, E, E + 1], [E + W - 3, E + W - 3, E + W - 2], [E, E + W - 2 - 3]):
            k, full = finish_script(rs, len(rs))
            full = [r for r in full if r < E + W]
            k = min(k, len(rs))
            add("life_edge", "eid_run %d %s" % (sh, " ".join(life_tokens(k, full))), readings=[full], shard=sh)
    # ---- outside the window (known class ClockOutsideWindow when the property fails)
    for _ in range(40 * mult):
        sh = rng.choice(SHARDS)
        which = rng.below(4)
        if which == 0:      # before the epoch
            b = rng.choice([0, 1, 1000, E - 5000, E - 50, rng.below(E)])
            rs = script(rng, rng.choice(["mono", "repeat", "walk"]), b + 3000)
        elif which == 1:    # straddling the epoch
            rs = script(rng, rng.choice(["mono", "walk"]), E - 20)
        elif which == 2:    # straddling the end of the window
            rs = script(rng, rng.choice(["mono", "walk", "repeat"]), E + W - 20)
        else:               # far beyond, up to the end of u64
            b = rng.choice([E + W + rng.below(W), E + 2 * W - 10, E + 5 * W + 7, U64 - 10 ** 6, rng.below(U64 - 10 ** 7)])
            rs = script(rng, rng.choice(["mono", "walk", "backward"]), b + 3000)
        k, full = finish_script(rs, rng.range(1, len(rs) + 1))
        add("life_outside", "eid_run %d %s" % (sh, " ".join(life_tokens(k, full))), readings=[full], shard=sh)
    # ---- several generator lifetimes (restart = new generator)
    def chain(nl, mode, eng):
        """nl lifetimes; returns (list of (k, full script)).  In the first nl-1 lifetimes of modes same/back the
        script is non-decreasing and k = its length, so the last millisecond used is its last reading."""
        t = E + 3000 + rng.below(10 ** 12)
        lives, first = [], None
        for li in range(nl):
            m = mode if mode != "mixed" else rng.choice(["adv", "same", "back"])
            kind = rng.choice(["mono", "repeat"] if (eng or m in ("same", "back")) else ["mono", "repeat", "walk", "backward"])
            rs = script(rng, kind, t)
            if first is not None:
                rs = [first] + rs
            if kind in ("mono", "repeat") and (m in ("same", "back") or rng.chance(1, 2)):
                k, full = finish_script(rs, len(rs))
                last_used = rs[-1]
            else:
                k, full = finish_script(rs, rng.range(1, len(rs) + 2))
                last_used = max(full)
            lives.append((k, full))
            if m == "adv":
                t = max(full) + 3000 + rng.range(1, 10 ** 6)   # later scripts dip at most 3000 below their base
                first = None
            elif m == "same":
                t = last_used
                first = last_used
            else:
                first = last_used - rng.choice([1, 1, 2, 50, rng.range(1, 10 ** 5)])
                t = first
        return lives

    for _ in range(120 * mult):
        sh = rng.choice(SHARDS)
        mode = rng.choice(["adv", "adv", "same", "back", "mixed"])
        lives = chain(rng.choice([2, 2, 2, 3]), mode, False)
        add("restart_" + mode, "eid_run %d %s" % (sh, " / ".join(" ".join(life_tokens(k, f)) for k, f in lives)),
            readings=[f for _, f in lives], shard=sh)
    # ---- real ShardContext: two lifetimes through the real WAL
    for _ in range(40 * mult):
        sh = rng.choice([0, 0, 1, 3, 1023, 1024, 1500])
        mode = rng.choice(["adv", "adv", "same", "back"])
        (k1, f1), (k2, f2) = chain(2, mode, True)
        add("ctx_restart_" + mode, "eid_life2 %d %s / %s" % (sh, " ".join(life_tokens(k1, f1)), " ".join(life_tokens(k2, f2))),
            readings=[f1, f2], shard=sh)
    # ---- end to end: DEFINE / STORE / restart / STORE / QUERY through the real dispatcher on one real shard
    for _ in range(10 * mult):
        mode = rng.choice(["adv", "same", "back"])
        (k1, f1), (k2, f2) = chain(2, mode, True)
        fl = rng.below(2)
        add("engine_restart_" + mode + ("_flushed" if fl else ""),
            "eid_engine %d %s / %s" % (fl, " ".join(life_tokens(k1, f1)), " ".join(life_tokens(k2, f2))),
            readings=[f1, f2], shard=0, stored=k1 + k2, k1=k1)
    # the epoch itself on shard 0: id 0 is written and regenerated on recovery
    for sh in (0, 1, 1024):
        k1, f1 = finish_script([E, E], 2)
        k2, f2 = finish_script([max(f1) + 10], 1)
        add("ctx_restart_epoch", "eid_life2 %d %s / %s" % (sh, " ".join(life_tokens(k1, f1)), " ".join(life_tokens(k2, f2))),
            readings=[f1, f2], shard=sh)
    # ---- real ShardContext: hand-written WAL (zero / missing ids are regenerated, others kept)
    for _ in range(50 * mult):
        sh = rng.choice([0, 1, 5, 1023, 1024, 70000])
        n = rng.range(0, 8)
        stored = []
        for _i in range(n):
            r = rng.below(6)
            stored.append("0" if r == 0 else "d" if r == 1 else str(rng.choice([1, 4095, 4096, rng.below(U64 - 1) + 1, ((rng.below(W)) << (SHB + SQB)) | ((sh % (1 << SHB)) << SQB) | rng.below(SEQN) or 1])))
        nz = sum(1 for s in stored if s in ("0", "d"))
        rs = script(rng, rng.choice(["mono", "repeat", "walk", "backward"]), E + 3000 + rng.below(10 ** 12))
        k = rng.range(0, 4)
        k_all, full = finish_script(rs, nz + k)
        add("ctx_wal", "eid_wal %d %s / %d %s" % (sh, " ".join(stored) if stored else "-", k, " ".join(rle(full))),
            readings=[full], shard=sh, stored=stored)
    # ---- synthetic row ids
    for _ in range(60 * mult):
        nz = rng.range(1, 3)
        zones, used, seen_ids = [], set(), set()
        zid = rng.choice([0, 1, 42, 2 ** 32 - 1, rng.below(2 ** 32)])
        for zi in range(nz):
            seg = "%05d" % rng.choice([0, 1, 2, 10000, 10001, rng.below(99999)])
            z = zid if rng.chance(2, 3) else rng.below(2 ** 32)
            if (seg, z) in used:
                continue
            used.add((seg, z))
            mode = rng.choice(["c", "c", "m"])
            ids = []
            for _r in range(rng.range(0, 5)):
                v = 0 if rng.chance(1, 5) else rng.choice([rng.below(U64 - 1) + 1, (zid << 32) | rng.below(4), rng.below(10 ** 6) + 1])
                if v != 0 and v in seen_ids:      # two rows never store the same real id
                    v = 0
                seen_ids.add(v)
                ids.append(v)
            zones.append((seg, z, mode, ids))
        line = "eid_synth " + " / ".join("%s %d %s %s" % (s, z, m, " ".join(map(str, ids)) if ids else "-") for (s, z, m, ids) in zones)
        add("synth", line, zones=[[s, z, m, ids] for (s, z, m, ids) in zones])
    for v in (0, 1, 2 ** 64 - 1, 2 ** 63):
        add("raw", "eid_raw %d" % v)
    return out


def run_sides(cases_, model_ok):
    return base.run_sides_fn(cases_, model_ok)


def same(c, impl, model):
    return impl == model


# ------------------------------------------------------------------ oracle (on the implementation's output only)
def _ids(s):
    s = s.strip()
    return [] if s in ("-", "") else [int(x) for x in s.split(",")]


def _parse(c, impl):
    """-> list of lifetimes, each {'rec': [...], 'new': [...]} plus optional 'applied' of the previous one."""
    line = c["line"]
    if line.startswith("eid_run"):
        if not impl.startswith("I "):
            return None
        return [{"rec": None, "new": _ids(p)} for p in impl[2:].split(" / ")]
    if line.startswith("eid_wal"):
        m = re.fullmatch(r"R (\S+) N (\S+)", impl)
        if not m:
            return None
        return [{"rec": _ids(m.group(1)), "new": _ids(m.group(2))}]
    if line.startswith("eid_life2"):
        m = re.fullmatch(r"A (\S+) R (\S+) N (\S+)", impl)
        if not m:
            return None
        return [{"rec": None, "new": _ids(m.group(1))}, {"rec": _ids(m.group(2)), "new": _ids(m.group(3))}]
    return None


def _strictly_increasing(xs):
    return all(a < b for a, b in zip(xs, xs[1:]))


def _problems(c, impl):
    """List of (what, tag) describing how the property fails on this case; tag in
    {'life','restart','recover','tag','synth','crash'}."""
    if impl in ("PANIC", "ABORT", None) or impl.startswith(("WAL_INCOMPLETE", "ROWCOUNT", "UNKNOWN")):
        return [(f"implementation answered {impl}", "crash")]
    line = c["line"]
    if line.startswith("eid_raw"):
        return []
    if line.startswith("eid_engine"):
        m = re.fullmatch(r"Q stored=(\d+) returned=(\d+) ids=(\S+) order=(\S+)", impl)
        if not m:
            return [(f"unexpected answer {impl}", "crash")]
        stored, returned, ids, order = int(m.group(1)), int(m.group(2)), _ids(m.group(3)), m.group(4)
        probs = []
        if stored != c.get("stored", stored):
            probs.append((f"{stored} STOREs acknowledged, expected {c.get('stored')}", "crash"))
        if returned != stored or len(set(ids)) != stored:
            probs.append((f"QUERY returned {returned} of {stored} stored events ({len(set(ids))} distinct ids)", "restart"))
        elif order != "increasing":
            probs.append(("event_id column does not increase in append order", "restart"))
        return probs
    if line.startswith("eid_synth"):
        parts = impl[2:].split(" / ") if impl.startswith("S ") else None
        zones = c.get("zones")
        if parts is None or zones is None or len(parts) != len(zones):
            return [(f"unexpected answer {impl}", "crash")]
        probs, rows = [], []
        for (seg, z, mode, ids), p in zip(zones, parts):
            got = _ids(p)
            if len(got) != len(ids):
                return [(f"zone {seg}/{z}: {len(got)} rows for {len(ids)}", "crash")]
            for row, (st, g) in enumerate(zip(ids, got)):
                synthetic = mode == "m" or st == 0
                if not synthetic and g != st:
                    probs.append((f"segment {seg} zone {z} row {row}: stored id {st} came back as {g}", "crash"))
                rows.append((seg, z, row, synthetic, g))
        by_id = {}
        for r in rows:
            by_id.setdefault(r[4], []).append(r)
        for g, rs in by_id.items():
            if len(rs) > 1 and any(r[3] for r in rs):      # distinct rows, one id, at least one of them synthetic
                probs.append((f"rows {rs[0][:3]} and {rs[1][:3]} both carry id {g}", "synth"))
        return probs
    lives = _parse(c, impl)
    if lives is None:
        return [(f"unexpected answer {impl}", "crash")]
    probs = []
    shard = int(line.split()[1])

    def check_life(n, ids, label="ids"):
        if not _strictly_increasing(ids):
            probs.append((f"lifetime {n}: {label} not strictly increasing: {_first_bad(ids)}", "life"))
        for i in ids:
            if (i >> SQB) & ((1 << SHB) - 1) != shard % (1 << SHB):
                probs.append((f"id {i} does not carry shard tag {shard % (1 << SHB)}", "tag"))
                break

    def check_restart(n, applied, new):
        if applied and new:
            dup = sorted(set(applied) & set(new))
            if dup:
                probs.append((f"lifetime {n} after restart: id {dup[0]} issued again", "restart"))
            elif not applied[-1] < new[0]:
                probs.append((f"lifetime {n} after restart: first id {new[0]} is below the last id {applied[-1]} applied before", "restart"))

    if line.startswith("eid_run"):
        applied = []
        for n, lf in enumerate(lives, 1):
            check_life(n, lf["new"])
            check_restart(n, applied, lf["new"])
            applied += lf["new"]
    elif line.startswith("eid_life2"):
        a, second = lives[0]["new"], lives[1]
        check_life(1, a)
        if second["rec"] != a:
            probs.append((f"recovery returned {second['rec'][:6]} for the stored ids {a[:6]}", "recover"))
        check_life(2, second["new"])
        check_restart(2, a, second["new"])
    else:  # eid_wal
        lf = lives[0]
        stored = [0 if s == "d" else int(s) for s in c.get("stored", []) if s != "-"]
        if len(lf["rec"]) != len(stored):
            probs.append((f"recovery returned {len(lf['rec'])} ids for {len(stored)} entries", "recover"))
        for st, g in zip(stored, lf["rec"]):
            if st != 0 and g != st:
                probs.append((f"stored id {st} recovered as {g}", "recover"))
                break
        regen = [g for st, g in zip(stored, lf["rec"]) if st == 0]
        check_life(1, regen + lf["new"], "ids generated during recovery and after it")
    return probs


def _first_bad(xs):
    for a, b in zip(xs, xs[1:]):
        if not a < b:
            return f"{a} then {b}"
    return ""


def oracle(c, impl):
    p = _problems(c, impl)
    if p:
        return f"{c.get('kind')}: " + "; ".join(w for w, _ in p[:3])
    return None


def classify(c, impl):
    p = _problems(c, impl)
    if not p:
        return None
    tags = {t for _, t in p}
    if "crash" in tags or "tag" in tags:
        return None
    if tags == {"synth"}:
        return "SyntheticIdCollision"
    reads = c.get("readings") or []
    flat = [r for l in reads for r in l]
    outside = any(r <= E or r >= E + W for r in flat)
    if outside:
        return "ClockOutsideWindow"
    if tags <= {"restart"} and c["line"].startswith("eid_engine"):
        # the first reading after the restart against the last millisecond of the first lifetime, which made k1
        # calls on a non-decreasing script (so it used exactly its first k1 readings)
        k1 = c.get("k1", int(c["line"].split()[2]))
        if reads[0] and reads[1] and reads[0][:k1] == sorted(reads[0][:k1]) and reads[1][0] <= reads[0][k1 - 1]:
            return "RestartClockNotAdvanced"
        return None
    if tags <= {"restart"}:
        # known class: the first reading of a lifetime does not exceed the last millisecond used before it
        lives = _parse(c, impl)
        last_ms = None
        for lf, rs in zip(lives, reads):
            if last_ms is not None and lf["new"] and rs and rs[0] <= last_ms:
                return "RestartClockNotAdvanced"
            for i in lf["new"]:
                ms = (i >> (SHB + SQB)) + E
                last_ms = ms if last_ms is None else max(last_ms, ms)
        return None
    return None


def nontrivial_key(c, impl):
    if impl and impl.count(",") >= 1:
        return (c["kind"], hash(impl))
    return None
