#!/bin/bash
# import_seed3.sh Cnn : copy the round-4 deliverables of /tmp/seed4/Cnn/SEED into /verif/seeded/Cnn-G and Cnn-H, remove the worktree
p=$1; S=/tmp/seed4/$p/SEED
[ -f $S/bugA.diff ] || { echo "no deliverables in $S"; exit 1; }
for x in A:G B:H; do a=${x%:*}; c=${x#*:}; d=/verif/seeded/$p-$c; mkdir -p $d
  cp $S/bug$a.diff $d/patch.diff; cp $S/README.md $d/README.seed.md
  for f in $S/demo$a*; do [ -e "$f" ] && cp -r "$f" $d/; done
done
git -C /repo apply --check /verif/seeded/$p-G/patch.diff && echo "$p-G applies"; git -C /repo apply --check /verif/seeded/$p-H/patch.diff && echo "$p-H applies"
rm -rf /tmp/seed4/$p/target; git -C /repo worktree remove --force /tmp/seed4/$p
