#!/usr/bin/env python3
"""Self-test of the C19 property oracle (tools/props/c19.py): runs two corpus cases on the real code,
then feeds the oracle mutated outputs (a deletion despite an injected fault, an archive missing an
entry, a changed payload value, a permuted recovery) and checks that each mutation is reported with no
known class.  Usage: python3 tools/c19_oracle_selftest.py   (needs the built harness)."""
import json, os, sys
sys.path.insert(0, os.path.dirname(os.path.abspath(__file__)))
import vlib
from props import c19

cs = json.load(open(os.path.join(vlib.VERIF, "corpus", "C19", "regress.json")))["cases"]
impl, _ = c19.run_sides(cs, False)
(sq, vals), (isq, ivals) = cs[:2], impl[:2]
assert c19.oracle(sq, isq) is None and c19.oracle(vals, ivals) is None
ok = True


def expect(name, case, out):
    global ok
    why, cls = c19.oracle(case, out), c19.classify(case, out)
    print(f"{name}: {why} (class {cls})")
    ok = ok and why is not None and cls is None


expect("deleted despite squat", sq, isq.replace(isq.split(";")[0], "C:"))
parts = ivals.split(";")
expect("archive lacks last entry", vals, ";".join(parts[:-1] + [parts[-1].rsplit("|", 1)[0]]))
expect("payload value changed", vals, ivals.replace("@f4609434218613702656", "@i1"))
two = {"line": "walarch_run c R=m " + " ".join(sq["line"].split()[3:5]) + " C=2 REC"}
o = c19.run_sides([two], False)[0][0]
assert c19.oracle(two, o) is None
rec = [p for p in o.split(";") if p.startswith("REC:")][0]
es = rec[4:].split("|")
expect("recovery permuted", two, o.replace(rec, "REC:" + "|".join([es[-1]] + es[:-1])))
print("selftest", "OK" if ok else "FAILED")
sys.exit(0 if ok else 1)
