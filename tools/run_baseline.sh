#!/bin/sh
# Runs the pinned suite the way BASELINE.json does (guard OFF) and compares with stable_pass.
cd /repo && cargo nextest run --workspace --no-fail-fast --tool-config-file pb:/w/lib/nextest.toml --profile pb --test-threads 8 --offline > /tmp/baseline_run.log 2>&1
python3 - <<'PY'
import json, xml.etree.ElementTree as ET
t = ET.parse('/repo/target/nextest/pb/junit.xml')
ok=set()
for tc in t.iter('testcase'):
    if tc.find('failure') is None and tc.find('error') is None:
        ok.add(tc.get('classname')+'::'+tc.get('name') if not tc.get('name').startswith(tc.get('classname')) else tc.get('name'))
base=json.load(open('/root/.vp/BASELINE.json'))['stable_pass']
names=set()
for tc in t.iter('testcase'):
    if tc.find('failure') is None and tc.find('error') is None:
        names.add(tc.get('name')); names.add(tc.get('classname')+'::'+tc.get('name'))
missing=[b for b in base if b not in names and b.split('::',1)[1] not in names]
print('passed', len(ok), 'stable_pass', len(base), 'missing', len(missing))
for m in missing[:40]: print('  MISSING', m)
PY
