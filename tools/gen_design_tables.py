#!/usr/bin/env python3
"""Regenerates the tables of DESIGN.md section 0.1 (between the markers) from the per-property modules,
known/*.json, evidence/*.json and seeded/*/meta.json."""
import glob, importlib, json, os, re, sys
HERE = os.path.dirname(os.path.abspath(__file__)); VERIF = os.path.dirname(HERE)
sys.path.insert(0, HERE)


def main():
    rows = []
    for i in range(1, 21):
        pid = f"C{i:02d}"
        try:
            mod = importlib.import_module(f"props.{pid.lower()}")
        except ModuleNotFoundError:
            rows.append(f"| {pid} | — | — | — | — | not built |")
            continue
        kn = []
        p = os.path.join(VERIF, "known", f"{pid}.json")
        if os.path.exists(p):
            kn = json.load(open(p))
        ev = {}
        p = os.path.join(VERIF, "evidence", f"{pid}.json")
        if os.path.exists(p):
            ev = json.load(open(p)).get("coverage", {})
        known = [k["class"] for k in kn if k.get("status") == "known"]
        fixed = [k["class"] for k in kn if k.get("status") == "fixed"]
        notes = f"notes/{pid}.md" if os.path.exists(os.path.join(VERIF, "notes", f"{pid}.md")) else "DESIGN §0/§6"
        rows.append(f"| {pid} | {len(mod.THEOREMS)} | {ev.get('obligations', '?')} | {ev.get('evaluations', '?')} | "
                    f"{len(known)} known" + (f", {len(fixed)} fixed" if fixed else "") + f" | {'claimed' if getattr(mod, 'CLAIMED', False) else 'not claimed'}; {notes} |")
    out = ["| property | property theorems | obligations in the cone | quick cases (last run) | findings | status / details |",
           "|---|---|---|---|---|---|"] + rows
    out.append("")
    out.append("Known-finding classes (one line each; witnesses and sites are in `known/Cnn.json`):")
    out.append("")
    for p in sorted(glob.glob(os.path.join(VERIF, "known", "*.json"))):
        for k in json.load(open(p)):
            out.append(f"* **{k['property']} {k['class']}** ({k.get('status')}): {k['what'][:260]}")
    out.append("")
    out.append("Seeded changes (written by independent sub-agents from the property text only; `seeded/<id>/`):")
    out.append("")
    metas = [(os.path.basename(os.path.dirname(p)), json.load(open(p))) for p in sorted(glob.glob(os.path.join(VERIF, "seeded", "*", "meta.json")))]
    n = len(metas)
    missed_first = [k for k, m in metas if "miss" in str(m.get("first_attempt", "")).lower() or "MISSED" in m.get("detected_by", "")]
    nofail_first = [k for k, m in metas if "no-failing-input" in str(m.get("first_attempt", ""))]
    final_missed = [k for k, m in metas if m.get("final") == "missed"]
    benign0 = [k for k, m in metas if m.get("after_fix_round")]
    missed_first = [k for k in missed_first if k not in final_missed and k not in benign0]
    pending = [k for k, m in metas if m.get("detected_by", "").startswith("pending")]
    benign = [k for k, m in metas if m.get("after_fix_round")]
    other_prop = [k for k, m in metas if m.get("detected_by", "") and not m["detected_by"].startswith(m.get("property", "?") + " ") and k not in final_missed and k not in pending]
    out.append(f"Summary: {n} seeded changes in six rounds (A/B: round 1, C/D: round 2 written against the tree after the fix rounds "
               f"with the round-1 mechanisms excluded, E/F: round 3 with rounds 1-2 excluded, G/H: round 4 for fourteen properties; round 5 added the two missing letters for the other ten; round 6 - letter I, in the continuation session - one more for C02, C05, C06, C07, C08, C09, C10, C13, C14, C15, C16, C17, C19, C20 with all earlier mechanisms excluded). Detected by the committed checks: "
               f"{n - len(final_missed) - len(pending) - len(benign)}; of these {len(missed_first)} were MISSED by the first attempt and caught only after the "
               f"check was strengthened ({', '.join(missed_first)}), {len(nofail_first)} were first reported without a failing input "
               f"({', '.join(nofail_first)}), {len(other_prop)} are caught by the check of a neighbouring property rather than the one they were "
               f"written for ({', '.join(other_prop)}). Not detected: {', '.join(final_missed) or 'none'}"
               + (f"; not yet re-tested: {', '.join(pending)}" if pending else "")
               + (f". {', '.join(benign)}: the change became harmless when a fix repaired the cooperating defect." if benign else "."))
    out.append("")
    out.append("| seed | breaks | needs | caught by |")
    out.append("|---|---|---|---|")
    for p in sorted(glob.glob(os.path.join(VERIF, "seeded", "*", "meta.json"))):
        m = json.load(open(p))
        out.append(f"| {os.path.basename(os.path.dirname(p))} | {m.get('breaks', '')[:200]} | {m.get('needs', '')[:160]} | {m.get('detected_by', '')[:300]} |")
    text = "\n".join(out) + "\n"
    d = open(os.path.join(VERIF, "DESIGN.md")).read()
    a, b = "<!-- TABLES:BEGIN -->", "<!-- TABLES:END -->"
    if a in d:
        d = d[:d.index(a) + len(a)] + "\n" + text + d[d.index(b):]
        open(os.path.join(VERIF, "DESIGN.md"), "w").write(d)
    print(text[:1500])


if __name__ == "__main__":
    main()
