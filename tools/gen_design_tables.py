#!/usr/bin/env python3
"""Regenerates the tables of DESIGN.md section 0.1 (between the markers) from the per-property modules,
known/*.json, evidence/*.json and seeded/*/meta.json."""
import glob, importlib, json, os, re, sys
HERE = os.path.dirname(os.path.abspath(__file__)); VERIF = os.path.dirname(HERE)
sys.path.insert(0, HERE)


def main():
    rows = []
    for i in range(1, 21):
        pid = f"C{i:02d}"
        try:
            mod = importlib.import_module(f"props.{pid.lower()}")
        except ModuleNotFoundError:
            rows.append(f"| {pid} | — | — | — | — | not built |")
            continue
        kn = []
        p = os.path.join(VERIF, "known", f"{pid}.json")
        if os.path.exists(p):
            kn = json.load(open(p))
        ev = {}
        p = os.path.join(VERIF, "evidence", f"{pid}.json")
        if os.path.exists(p):
            ev = json.load(open(p)).get("coverage", {})
        known = [k["class"] for k in kn if k.get("status") == "known"]
        fixed = [k["class"] for k in kn if k.get("status") == "fixed"]
        notes = f"notes/{pid}.md" if os.path.exists(os.path.join(VERIF, "notes", f"{pid}.md")) else "DESIGN §0/§6"
        rows.append(f"| {pid} | {len(mod.THEOREMS)} | {ev.get('obligations', '?')} | {ev.get('evaluations', '?')} | "
                    f"{len(known)} known" + (f", {len(fixed)} fixed" if fixed else "") + f" | {'claimed' if getattr(mod, 'CLAIMED', False) else 'not claimed'}; {notes} |")
    out = ["| property | property theorems | obligations in the cone | quick cases (last run) | findings | status / details |",
           "|---|---|---|---|---|---|"] + rows
    out.append("")
    out.append("Known-finding classes (one line each; witnesses and sites are in `known/Cnn.json`):")
    out.append("")
    for p in sorted(glob.glob(os.path.join(VERIF, "known", "*.json"))):
        for k in json.load(open(p)):
            out.append(f"* **{k['property']} {k['class']}** ({k.get('status')}): {k['what'][:260]}")
    out.append("")
    out.append("Seeded changes (written by independent sub-agents from the property text only; `seeded/<id>/`):")
    out.append("")
    out.append("| seed | breaks | needs | caught by |")
    out.append("|---|---|---|---|")
    for p in sorted(glob.glob(os.path.join(VERIF, "seeded", "*", "meta.json"))):
        m = json.load(open(p))
        out.append(f"| {os.path.basename(os.path.dirname(p))} | {m.get('breaks', '')[:200]} | {m.get('needs', '')[:160]} | {m.get('detected_by', '')[:300]} |")
    text = "\n".join(out) + "\n"
    d = open(os.path.join(VERIF, "DESIGN.md")).read()
    a, b = "<!-- TABLES:BEGIN -->", "<!-- TABLES:END -->"
    if a in d:
        d = d[:d.index(a) + len(a)] + "\n" + text + d[d.index(b):]
        open(os.path.join(VERIF, "DESIGN.md"), "w").write(d)
    print(text[:1500])


if __name__ == "__main__":
    main()
