#!/usr/bin/env python3
"""Self-test of the C20 decoding oracle (tools/props/c20.py): runs the Unicode families on the real code, then
re-spells the text stream the implementation produced and feeds it back to the judges:

  * every non-ASCII character as a CORRECT JSON escape (\\uXXXX, surrogate pair beyond the BMP) and '/' as '\\/':
    decodes to the same strings, so the oracle must accept it and the decoded stream must still equal the model's;
  * every non-ASCII character as '\\u' + hex of the code point (5-6 digits beyond the BMP), half a surrogate pair,
    NFC-normalised text, a dropped character: each decodes to other strings and must be reported, with no known class,
    naming the cell.

Usage: python3 tools/c20_oracle_selftest.py   (needs the built harness and model runner)."""
import json, os, sys, unicodedata
sys.path.insert(0, os.path.dirname(os.path.abspath(__file__)))
import vlib
from props import c20

cs = [c for c in c20.uni_cases(vlib.Rng(7).fork("C20"), True)]
lines = [c["line"] for c in cs]
raw = []
for bs in sorted(set(c20.bs_of(l) for l in lines)):
    idx = [i for i, l in enumerate(lines) if c20.bs_of(l) == bs]
    res = vlib.run_lines(vlib.VHARN, ["fn"], [lines[i] for i in idx], timeout=900, env={"RENDER_BS": bs})
    raw += list(zip(idx, res))
raw = [r for _, r in sorted(raw)]
model = vlib.run_lines(vlib.MODEL_RUN, [], lines, timeout=900)


def respell(text, fn):
    """apply fn to every character inside the JSON string literals of one frame line"""
    out, i, n = [], 0, len(text)
    ins = False
    while i < n:
        ch = text[i]
        if not ins:
            out.append(ch)
            ins = ch == '"'
        elif ch == "\\":
            out.append(text[i:i + 2])
            i += 1
        elif ch == '"':
            out.append(ch)
            ins = False
        else:
            out.append(fn(ch))
        i += 1
    return "".join(out)


def good(ch):
    o = ord(ch)
    if ch == "/":
        return "\\/"
    if o < 0x80:
        return ch
    if o < 0x10000:
        return "\\u%04X" % o
    o -= 0x10000
    return "\\u%04x\\u%04x" % (0xD800 + (o >> 10), 0xDC00 + (o & 0x3FF))


def codepoint_hex(ch):
    return ch if ord(ch) < 0x80 else "\\u%04x" % ord(ch)


def half_pair(ch):
    o = ord(ch)
    return ch if o < 0x10000 else "\\u%04x" % (0xD800 + ((o - 0x10000) >> 10))


def nfc(ch):
    return ch      # applied on the whole line below


def drop(ch):
    return "" if ord(ch) >= 0x10000 else ch


def mutate(r, fn, whole=None):
    t = dict(p.split(":", 1) for p in r.split(" "))
    text = vlib.unhx(t["U"]).decode("utf-8")
    new = "\n".join(whole(l) if whole else respell(l, fn) for l in text.split("\n"))
    if new == text:
        return None
    t["U"] = vlib.hx(new)
    return " ".join(f"{k}:{t[k]}" for k in ("J", "U", "A"))


ok = True
n_good = n_bad = 0
for c, r, m in zip(cs, raw, model):
    base_out = c20.canon_impl(c["line"], r)
    base_fail = c20.failing(c, base_out)
    if not c20.same(c, base_out, m):
        print("FAIL: unchanged output differs from the model", c["show"])
        ok = False
    g = mutate(r, good)
    if g is not None:
        n_good += 1
        out = c20.canon_impl(c["line"], g)
        if out != base_out or not c20.same(c, out, m) or c20.failing(c, out) != base_fail:
            print("FAIL: a correct escaping was not accepted", c["show"])
            ok = False
    for name, fn, whole in (("code point hex", codepoint_hex, None), ("half pair", half_pair, None), ("dropped", drop, None),
                            ("NFC", None, lambda l: unicodedata.normalize("NFC", l))):
        b = mutate(r, fn, whole)
        if b is None:
            continue
        out = c20.canon_impl(c["line"], b)
        if out == base_out:
            continue                      # the re-spelling decodes to the same content (e.g. BMP only): nothing to report
        n_bad += 1
        why, cls = c20.oracle(c, out), c20.classify(c, out, m)
        new = [f for f in c20.failing(c, out) if f not in base_fail]
        if not why or not new or (cls is not None) or c20.same(c, out, m):
            print(f"FAIL: wrong spelling ({name}) not reported as new", c["show"], why, cls)
            ok = False
print(f"selftest {'OK' if ok else 'FAILED'}: {len(cs)} cases, {n_good} correct re-spellings accepted, {n_bad} wrong re-spellings reported")
sys.exit(0 if ok else 1)
