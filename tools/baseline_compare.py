#!/usr/bin/env python3
"""Compare a `cargo test` log with BASELINE.json's stable_pass list."""
import json, re, sys
log = open(sys.argv[1], errors="replace").read()
ok = set(re.findall(r"^test (\S+) \.\.\. ok", log, re.M))
base = json.load(open("/root/.vp/BASELINE.json"))["stable_pass"]
missing = [t for t in base if t.split("::", 1)[1] not in ok]
print(f"ok in log: {len(ok)}; stable_pass: {len(base)}; stable_pass not ok in log: {len(missing)}")
for t in missing[:30]:
    print("  MISSING", t)
