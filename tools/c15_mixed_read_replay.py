#!/usr/bin/env python3
"""Replay of an observation made while building C15 (belongs to C03/C02, not to C15):
with rows of one event type both in a flushed segment and in the memtable, a plain `QUERY pb`
non-deterministically omits the flushed rows (seen 2 times out of 6, also 200 ms after the flush
completed), and `QUERY pa WHERE x < 3` deterministically loses a flushed row.
Usage: python3 tools/c15_mixed_read_replay.py [repetitions]"""
import json, os, sys
sys.path.insert(0, os.path.dirname(os.path.abspath(__file__)))
import engine

A = [(2, 7, 0), (2, 7, 0), (2, 10, 1), (2, 10, 3), (2, 10, 3)]          # (k, t, x), u = index
B = [(2, 10, 3), (2, 7, 0), (2, 7, 2), (2, 7, 2), (2, 2, 3)]            # (k, t, y)
OPS = "S04,S14,S11,S03,S01,F,S12,S13,S02,S00,S10".split(",")

def main(n):
    for rep in range(n):
        e = engine.Engine(shards=1).start()
        try:
            e.cmd('DEFINE pa FIELDS { k: "int", t: "int", x: "int", u: "int" }')
            e.cmd('DEFINE pb FIELDS { k: "int", t: "int", y: "int", u: "int" }')
            for op in OPS:
                if op == "F":
                    e.cmd("FLUSH"); e.cmd("!flushwait"); e.cmd("!wal_drained 3000"); e.cmd("!sleep 200")
                else:
                    t, i = int(op[1]), int(op[2:])
                    k, tt, v = (A if t == 0 else B)[i]
                    ty, f = ("pa", "x") if t == 0 else ("pb", "y")
                    e.cmd(f'STORE {ty} FOR ctx{(i + t) % 3} PAYLOAD {json.dumps({"k": k, "t": tt, f: v, "u": i})}')
            for q in ("QUERY pb", "QUERY pa", "QUERY pa WHERE x < 3"):
                r = e.rows(q)
                print(rep, q, "->", sorted(x.get("u") for x in r["rows"]))
        finally:
            e.destroy()

if __name__ == "__main__":
    main(int(sys.argv[1]) if len(sys.argv) > 1 else 6)
