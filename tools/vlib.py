"""Shared machinery of /verif/check: builds, running both sides, verdicts, evidence."""
import fcntl, hashlib, json, os, re, subprocess, sys, time, glob

VERIF = os.path.dirname(os.path.dirname(os.path.abspath(__file__)))
REPO = os.environ.get("VERIF_REPO", "/repo")
COQ = os.path.join(VERIF, "coq")
OCAML = os.path.join(VERIF, "ocaml")
HARN = os.path.join(VERIF, "harness")
WORK = os.path.join(VERIF, "work")
VHARN = os.path.join(HARN, "target", "vh", "vharn")
MODEL_RUN = os.path.join(OCAML, "model_run")
GUARD_CFG = "sneldb_verif"

ALLOWED_AXIOMS = {
    # standard-library axioms that may appear because a library brings them in
    "functional_extensionality_dep", "FunctionalExtensionality.functional_extensionality_dep",
    "Eqdep.Eq_rect_eq.eq_rect_eq", "eq_rect_eq", "JMeq_eq", "JMeq.JMeq_eq",
    "Classical_Prop.classic", "classic", "proof_irrelevance", "ClassicalFacts.proof_irrelevance",
}

os.makedirs(WORK, exist_ok=True)


# ---------------------------------------------------------------- randomness
class Rng:
    """splitmix64; every random choice of a check derives from VERIF_SEED through this."""

    def __init__(self, seed):
        self.s = seed & 0xFFFFFFFFFFFFFFFF

    def next(self):
        self.s = (self.s + 0x9E3779B97F4A7C15) & 0xFFFFFFFFFFFFFFFF
        z = self.s
        z = ((z ^ (z >> 30)) * 0xBF58476D1CE4E5B9) & 0xFFFFFFFFFFFFFFFF
        z = ((z ^ (z >> 27)) * 0x94D049BB133111EB) & 0xFFFFFFFFFFFFFFFF
        return z ^ (z >> 31)

    def below(self, n):
        return self.next() % n if n > 0 else 0

    def range(self, lo, hi):  # inclusive
        return lo + self.below(hi - lo + 1)

    def choice(self, xs):
        return xs[self.below(len(xs))]

    def chance(self, num, den):
        return self.below(den) < num

    def fork(self, tag):
        h = int.from_bytes(hashlib.sha256(f"{self.s}:{tag}".encode()).digest()[:8], "big")
        return Rng(h)


def hx(b):
    if isinstance(b, str):
        b = b.encode("utf-8")
    return b.hex() if b else "-"


def unhx(s):
    return b"" if s == "-" else bytes.fromhex(s)


# ---------------------------------------------------------------- locking / running
class BuildLock:
    def __init__(self, name="build"):
        self.path = os.path.join(WORK, f".{name}.lock")

    def __enter__(self):
        self.f = open(self.path, "w")
        fcntl.flock(self.f, fcntl.LOCK_EX)
        return self

    def __exit__(self, *a):
        fcntl.flock(self.f, fcntl.LOCK_UN)
        self.f.close()


def sh(cmd, timeout, cwd=None, env=None, inp=None):
    e = dict(os.environ)
    e["CARGO_NET_OFFLINE"] = "true"
    if env:
        e.update(env)
    try:
        p = subprocess.run(cmd, shell=isinstance(cmd, str), cwd=cwd, env=e, input=inp,
                           stdout=subprocess.PIPE, stderr=subprocess.STDOUT, timeout=timeout, text=True)
        return p.returncode, p.stdout
    except subprocess.TimeoutExpired as ex:
        out = ex.stdout or ""
        if isinstance(out, bytes):
            out = out.decode("utf-8", "replace")
        return 124, out + "\nTIMEOUT"


# ---------------------------------------------------------------- the Coq side
def gen_params():
    """Returns (ok, message, failures): failures = plug-ins that no longer find their item in the Rust text.
    Their definitions are simply absent from Params.v, so only the cones that use them stop compiling."""
    rc, out = sh([sys.executable, os.path.join(VERIF, "tools", "gen_params.py")], 120)
    fails = []
    try:
        fails = json.load(open(os.path.join(WORK, "params_failures.json")))
    except Exception:
        pass
    return rc == 0, out.strip(), fails


def coq_cone(prop_v):
    """Transitive Snel.* dependencies of a .v file (paths relative to coq/)."""
    seen, todo = [], [prop_v]
    while todo:
        f = todo.pop()
        if f in seen:
            continue
        seen.append(f)
        try:
            src = open(os.path.join(COQ, f)).read()
        except OSError:
            continue
        src = re.sub(r"\(\*.*?\*\)", "", src, flags=re.S)
        for m in re.finditer(r"From\s+Snel\s+Require\s+(?:Import|Export)?\s*(.+?)\.(?=\s)", src, re.S):
            for mod in m.group(1).split():
                p = "theories/" + mod.replace(".", "/") + ".v"
                if os.path.exists(os.path.join(COQ, p)):
                    todo.append(p)
    return seen


STMT_RE = re.compile(r"^\s*(Theorem|Lemma|Corollary|Example|Fact|Remark|Proposition)\s+([A-Za-z_][\w']*)", re.M)


def count_obligations(files):
    names = []
    for f in files:
        try:
            src = open(os.path.join(COQ, f)).read()
        except OSError:
            continue
        src = re.sub(r"\(\*.*?\*\)", "", src, flags=re.S)
        names += [f"{f}:{m.group(2)}" for m in STMT_RE.finditer(src)]
    return names


HYGIENE_RE = re.compile(r"\b(Admitted|admit|Axiom|Axioms|Parameter|Parameters|Conjecture|Conjectures|Hypothesis|Hypotheses|Variable|Variables|Admit Obligations|Unset Guard Checking|Unset Positivity Checking|Unset Universe Checking|bypass_check|type-in-type|impredicative-set|native_compute)\b")


def hygiene(files):
    """Forbidden vernacular anywhere in the cone (Variable/Hypothesis only allowed inside a Section)."""
    bad = []
    for f in files:
        try:
            src = open(os.path.join(COQ, f)).read()
        except OSError:
            continue
        src = re.sub(r"\(\*.*?\*\)", lambda m: "\n" * m.group(0).count("\n"), src, flags=re.S)
        depth = 0
        for i, line in enumerate(src.split("\n"), 1):
            if re.match(r"\s*Section\s+\w+", line):
                depth += 1
            m = HYGIENE_RE.search(line)
            if m:
                w = m.group(1)
                if w in ("Variable", "Variables", "Hypothesis", "Hypotheses") and depth > 0:
                    pass
                else:
                    bad.append(f"{f}:{i}: {w}")
            if re.match(r"\s*End\s+\w+\s*\.", line) and depth > 0:
                depth -= 1
    for f in [os.path.join(COQ, "_CoqProject")]:
        t = open(f).read()
        for w in ("-type-in-type", "-impredicative-set", "-vos", "-vok"):
            if w in t:
                bad.append(f"_CoqProject: {w}")
    return bad


def coq_build(target, timeout=1500):
    """Full .vo build of one target and its cone; the Props file is always recompiled
    so that Print Assumptions is fresh."""
    with BuildLock("coq"):
        vo = os.path.join(COQ, target)
        if target.startswith("theories/Props/") and os.path.exists(vo):
            os.remove(vo)
        rc, out = sh(["./mk.sh", "-j16", target], timeout, cwd=COQ)
    return rc, out


def parse_assumptions(out):
    """Returns (n_closed, axioms list) from Print Assumptions output in a make log."""
    closed = out.count("Closed under the global context")
    axioms = []
    for blk in re.finditer(r"Axioms:\n((?:.+\n?)+?)(?:\n|\Z|COQC|Closed)", out):
        for line in blk.group(1).split("\n"):
            m = re.match(r"^([A-Za-z_][\w.']*)\s*:", line)
            if m:
                axioms.append(m.group(1))
    return closed, axioms


def failing_theorem(out, props_file):
    m = re.search(r'File "\./([^"]+)", line (\d+)', out)
    if not m:
        return None
    f, ln = m.group(1), int(m.group(2))
    try:
        lines = open(os.path.join(COQ, f)).read().split("\n")
    except OSError:
        return f"{f}:{ln}"
    name = None
    for i in range(min(ln, len(lines)) - 1, -1, -1):
        mm = STMT_RE.match(lines[i]) or re.match(r"^\s*(Definition|Fixpoint|Ltac)\s+([\w']+)", lines[i])
        if mm:
            name = mm.group(2)
            break
    return f"{f}:{ln} ({name})"


def ocaml_build(timeout=900):
    """Rebuild model_run when any model .vo or driver source is newer than the binary."""
    with BuildLock("ocaml"):
        srcs = glob.glob(os.path.join(COQ, "theories", "Model", "*.vo")) + \
            glob.glob(os.path.join(COQ, "theories", "Base", "*.vo")) + \
            glob.glob(os.path.join(COQ, "theories", "Gen", "*.vo")) + \
            glob.glob(os.path.join(OCAML, "*.ml")) + [os.path.join(OCAML, "build.sh")]
        vos = sorted(os.path.relpath(v, COQ) for v in srcs if v.endswith(".vo"))
        stamp = os.path.join(OCAML, ".modules")
        same_set = os.path.exists(stamp) and open(stamp).read().split("\n") == vos
        if os.path.exists(MODEL_RUN) and same_set:
            mt = os.path.getmtime(MODEL_RUN)
            if all(os.path.getmtime(s) <= mt for s in srcs if os.path.exists(s)):
                return 0, "up to date"
        open(stamp, "w").write("\n".join(vos))
        return sh(["./build.sh"], timeout, cwd=OCAML)


def model_vos_build(timeout=1500):
    """Build every Model/*.vo (no proofs) so the extraction can run even if a proof is broken."""
    with BuildLock("coq"):
        srcs = sorted(glob.glob(os.path.join(COQ, "theories", "Model", "*.v")))
        targets = ["theories/Model/" + os.path.basename(f) + "o" for f in srcs]
        rc, out = sh(["./mk.sh", "-k", "-j16"] + targets, timeout, cwd=COQ)
        if rc != 0:
            # a model that no longer compiles (e.g. it uses a Params definition whose plug-in failed) must not
            # leave a stale .vo behind: the extraction would silently run yesterday's model
            bad = set(re.findall(r"\*\*\* \[[^\]]*?(theories/Model/[\w]+\.vo)\]", out)) | \
                set(re.findall(r"Target '(theories/Model/[\w]+\.vo)' not remade", out))
            for t in bad:
                vo = os.path.join(COQ, t)
                for ext in ("", "k", "s"):
                    if os.path.exists(vo + ext):
                        os.remove(vo + ext)
            failed = [os.path.basename(f) for f in srcs if not os.path.exists(f + "o")]
            return (0 if failed else rc), out + "\nMODELS-NOT-BUILT: " + " ".join(failed)
        return rc, out


def harness_build(timeout=3000):
    with BuildLock("cargo"):
        env = {"RUSTFLAGS": f"--cfg {GUARD_CFG}"}
        rc, out = sh(["cargo", "build", "--profile", "vh", "--offline"], timeout, cwd=HARN, env=env)
    return rc, out


# ---------------------------------------------------------------- running the two sides
def die_with_parent():
    """preexec_fn for child processes: the kernel kills the child when this process dies (a check that is
    killed from outside must not leave model or harness processes spinning on the machine)."""
    try:
        import ctypes, signal
        ctypes.CDLL("libc.so.6", use_errno=True).prctl(1, signal.SIGKILL)   # PR_SET_PDEATHSIG
    except Exception:
        pass


def run_lines(binary, args, lines, timeout=600, shards=16, env=None, _retry=0):
    """Feeds case lines to `binary args` over stdin in parallel shards; returns list of output
    lines aligned with input lines. A shard that dies yields 'ABORT' for its unanswered cases."""
    n = len(lines)
    if n == 0:
        return []
    shards = max(1, min(shards, (n + 49) // 50))
    chunks = [list(range(i, n, shards)) for i in range(shards)]
    procs = []
    e = dict(os.environ)
    if env:
        e.update(env)
    for ch in chunks:
        p = subprocess.Popen([binary] + args, stdin=subprocess.PIPE, stdout=subprocess.PIPE,
                             stderr=subprocess.DEVNULL, text=True, env=e, preexec_fn=die_with_parent)
        procs.append((p, ch))
    import threading
    results = [None] * n
    timed_out = []   # indices left unanswered because the shard hit the wall-clock limit (not because it died)

    def work(p, ch):
        late = False
        try:
            out, _ = p.communicate("\n".join(lines[i] for i in ch) + "\n", timeout=timeout)
        except subprocess.TimeoutExpired:
            late = True
            p.kill()
            out, _ = p.communicate()
            out = (out or "")
        ol = out.split("\n")
        if ol and ol[-1] == "":
            ol.pop()
        if late and ol and len(ol) <= len(ch):
            ol.pop()          # the last line of a killed process may be cut short
        for k, i in enumerate(ch):
            if k < len(ol):
                results[i] = ol[k]
            else:
                results[i] = "ABORT"
                if late:
                    timed_out.append(i)

    ths = [threading.Thread(target=work, args=pc) for pc in procs]
    [t.start() for t in ths]
    [t.join() for t in ths]
    # The extracted model is a pure function of one input line, so cases that a loaded machine did not reach in
    # time are simply run again with a longer limit (never done for the implementation side, whose probes may
    # keep state between lines and whose hangs are findings). What is still unanswered stays "ABORT".
    if timed_out and binary == MODEL_RUN and _retry < 2:
        idx = sorted(timed_out)
        again = run_lines(binary, args, [lines[i] for i in idx], timeout=timeout * 3, shards=16, env=env, _retry=_retry + 1)
        for i, r in zip(idx, again):
            results[i] = r
    return results


# ---------------------------------------------------------------- known findings
def load_known(prop):
    """Known findings of a property: known/<prop>.json (committed; assembled into
    known_findings.json by tools/gen_manifest.py). Never written at run time."""
    p = os.path.join(VERIF, "known", f"{prop}.json")
    if os.path.exists(p):
        return [k for k in json.load(open(p)) if k.get("property") == prop]
    p = os.path.join(VERIF, "known_findings.json")
    if not os.path.exists(p):
        return []
    return [k for k in json.load(open(p)) if k.get("property") == prop]


# ---------------------------------------------------------------- evidence
def write_evidence(prop, tier, seed, coverage, assumptions, wall, violations):
    os.makedirs(os.path.join(VERIF, "evidence"), exist_ok=True)
    ev = {"property_id": prop, "tier": tier, "seed": seed, "level": "proof", "coverage": coverage,
          "assumptions": assumptions, "wall_s": round(wall, 2), "violations": violations}
    with open(os.path.join(VERIF, "evidence", f"{prop}.json"), "w") as f:
        json.dump(ev, f, indent=1, sort_keys=True)


def write_replay(prop, payload):
    os.makedirs(os.path.join(VERIF, "replays"), exist_ok=True)
    h = hashlib.sha256(json.dumps(payload, sort_keys=True).encode()).hexdigest()[:12]
    path = os.path.join(VERIF, "replays", f"{prop}-{h}.json")
    with open(path, "w") as f:
        json.dump(payload, f, indent=1, sort_keys=True)
    return path
