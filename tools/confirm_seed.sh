#!/bin/bash
# confirm_seed.sh <name> <bug.diff> <demo.patch> <config.toml or -> <nextest filter expr> [related test filter]
# In a scratch worktree of /repo: (1) demo on the clean tree must PASS, (2) with the bug applied the demo must FAIL,
# (3) with the bug (and without the demo) the related repo tests must still pass. Removes the worktree afterwards.
name=$1; bug=$2; demo=$3; cfg=$4; filt=$5; rel=$6
wt=/tmp/confirm/$name
rm -rf $wt; git -C /repo worktree prune; git -C /repo worktree add -q --detach $wt HEAD || exit 2
cd $wt
export CARGO_BUILD_JOBS=6 CARGO_NET_OFFLINE=true
[ "$cfg" != "-" ] && export SNELDB_CONFIG=$cfg
log=/tmp/confirm/$name.log; : > $log
git apply $demo || { echo "demo patch does not apply" >> $log; }
echo "== clean tree + demo" >> $log
nice cargo nextest run --offline --no-fail-fast --test-threads 4 -E "$filt" >> $log 2>&1; echo "EXIT_CLEAN=$?" >> $log
git apply $bug || { echo "bug patch does not apply" >> $log; }
echo "== bug + demo" >> $log
nice cargo nextest run --offline --no-fail-fast --test-threads 4 -E "$filt" >> $log 2>&1; echo "EXIT_BUG=$?" >> $log
if [ -n "$rel" ]; then
  echo "== bug, related repo tests" >> $log
  unset SNELDB_CONFIG
  nice cargo nextest run --offline --no-fail-fast --test-threads 4 -E "$rel" >> $log 2>&1; echo "EXIT_REL=$?" >> $log
fi
cd /; git -C /repo worktree remove --force $wt
grep -E "EXIT_|Summary" $log
