#!/usr/bin/env python3
"""Side finding seen while building C06 (NOT part of the C06 check; C03/C07/C11 territory).

ONE vharn process, a private fresh directory, plain command lines through parse_command + dispatch_command:
DEFINE t FIELDS {"b":"int"}; 40 x (STORE t FOR c<i> PAYLOAD {"b":i} [; QUERY t]); wait 6 s; QUERY t; wait 2 s; QUERY t.
Config = /repo/config/test.toml with absolute dirs, fill_factor=2, event_per_zone=2, shard_count=2 (VHARN_STORE_FLUSH=1).

  python3 tools/c06_flush_repro.py <frontend 0|1> <N> [q]

  frontend=1: registry/shard manager taken from FrontendContext::from_config(); 0: built directly.
  q: a QUERY t after every STORE.  Without q the final QUERY returns all N rows; with q it settles on a state
  that lacks 12-16 of 40 acknowledged events and contains rows with context_id "" and event_id 0, 1,
  4294967296, 4294967297 (some carrying the payload of a missing event), identically on every later read."""
import subprocess, os, tempfile, shutil, json, sys
VHARN = os.path.join(os.path.dirname(os.path.dirname(os.path.abspath(__file__))), "harness", "target", "vh", "vharn")
frontend = sys.argv[1] if len(sys.argv) > 1 else "1"
N = int(sys.argv[2]) if len(sys.argv) > 2 else 40
d = tempfile.mkdtemp(prefix="c06-repro-", dir="/dev/shm")
env = dict(os.environ, VHARN_STORE_DIR=d, VHARN_STORE_FLUSH="1", VHARN_STORE_FRONTEND=frontend)
raw = lambda line: "store_raw " + line.encode().hex()
interleave = len(sys.argv) > 3 and sys.argv[3] == "q"
lines = [raw('DEFINE t FIELDS { "b": "int" }')]
for i in range(N):
    lines.append(raw('STORE t FOR c%d PAYLOAD {"b":%d}' % (i, i)))
    if interleave:
        lines.append(raw("QUERY t"))
K = len(lines)
lines += ["store_sleep 6000", raw("QUERY t"), "store_sleep 2000", raw("QUERY t")]
p = subprocess.run([VHARN, "fn"], input="\n".join(lines) + "\n", capture_output=True, text=True, env=env, timeout=300)
out = p.stdout.split("\n")
for o in (out[K + 1], out[K + 3]):
    dec = json.JSONDecoder(); pos = 0; rs = []
    while pos < len(o):
        while pos < len(o) and o[pos] == " ": pos += 1
        if pos >= len(o): break
        v, pos = dec.raw_decode(o, pos)
        if v.get("type") == "batch":
            rs += [(r[0], r[3], r[4]) for r in v["rows"]]   # context_id, event_id, b
    ctx = [c for c, _, _ in rs]
    print("rows", len(rs), "missing", [f"c{i}" for i in range(N) if f"c{i}" not in ctx], "unexpected", [x for x in rs if not x[0].startswith("c")],
          "duplicates", sorted(set(c for c in ctx if ctx.count(c) > 1)))
shutil.rmtree(d, ignore_errors=True)
