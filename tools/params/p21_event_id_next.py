"""Params plug-in (C18): the shape of EventIdGenerator::next / wait_next_millis, the shard cast in
ShardContext::next_event_id, the zero-id rule of on_store / WAL recovery and the synthetic row id.
The Coq model (Model/EventId.v) hard-codes this control flow; the translator fails when the Rust text
no longer has it, and emits the two widths the model is parameterised by."""
import re
from gen_params import read, Missing


def need(src, rel, pat, flags=re.S):
    m = re.search(pat, src, flags)
    if not m:
        raise Missing(f"{rel}: pattern {pat}")
    return m


def gen(out):
    rel = "src/engine/core/event/event_id.rs"
    src = re.sub(r"//[^\n]*", "", read(rel))
    # generator state and the step
    need(src, rel, r"pub struct EventIdGenerator\s*\{\s*last_millis:\s*u64,\s*sequence:\s*u16,\s*\}")
    m = need(src, rel, r"pub fn next\(&mut self, shard_id: u(\d+)\) -> EventId \{(.*?)EventId::from_raw\(raw\)")
    cast_bits = int(m.group(1))
    body = re.sub(r"\s+", " ", m.group(2))
    for pat in [
        r"let mut millis = current_millis\(\);",
        r"if millis < self\.last_millis \{ millis = self\.last_millis; \}",
        r"if millis == self\.last_millis \{ self\.sequence = self\.sequence\.wrapping_add\(1\) & SEQUENCE_MASK; "
        r"if self\.sequence == 0 \{ millis = wait_next_millis\(self\.last_millis\); \} \} else \{ self\.sequence = 0; \}",
        r"self\.last_millis = millis;",
        r"let shard_component = \(shard_id as u64\) & SHARD_ID_MASK;",
        r"let seq_component = self\.sequence as u64;",
    ]:
        if not re.search(pat, body):
            raise Missing(f"{rel}: next(): {pat}")
    need(src, rel, r"fn wait_next_millis\(last: u64\) -> u64 \{\s*let mut now = current_millis\(\);\s*while now <= last \{"
                   r"\s*std::thread::yield_now\(\);\s*now = current_millis\(\);\s*\}\s*now\s*\}")
    need(src, rel, r"#\[derive\([^)]*Default[^)]*\)\]\s*pub struct EventIdGenerator")
    # shard cast
    rel2 = "src/engine/shard/context.rs"
    src2 = read(rel2)
    m2 = need(src2, rel2, r"self\.event_id_gen\.next\(self\.id as u(\d+)\)")
    if int(m2.group(1)) != cast_bits:
        raise Missing(f"{rel2}: cast width {m2.group(1)} differs from next()'s parameter type u{cast_bits}")
    need(src2, rel2, r"event_id_gen: EventIdGenerator::new\(\),")
    out.append(f"Definition id_shard_cast_bits : N := {cast_bits}%N.")
    # zero-id rule on the write path and in recovery
    rel3 = "src/engine/shard/worker.rs"
    need(read(rel3), rel3, r"if event\.event_id\(\)\.is_zero\(\) \{\s*let id = ctx\.next_event_id\(\);\s*event\.set_event_id\(id\);")
    rel4 = "src/engine/core/wal/wal_recovery.rs"
    need(read(rel4), rel4, r"id: entry\.event_id,.*?if event\.event_id\(\)\.is_zero\(\) \{\s*let generated = ctx\.next_event_id\(\);"
                          r"\s*event\.set_event_id\(generated\);")
    # synthetic row id
    rel5 = "src/engine/core/filter/condition_evaluator.rs"
    m5 = need(read(rel5), rel5, r"if event_id_missing \|\| event\.event_id\(\)\.is_zero\(\) \{\s*let synthetic_id = "
                               r"\(zone\.zone_id as u64\) << (\d+) \| \(i as u64\);")
    out.append(f"Definition id_synth_shift : N := {int(m5.group(1))}%N.")
