"""Params plug-in (C01, C03, C05, C09 engine part): which row filters an aggregate (COUNT ...) applies to the
in-memory rows and to segment rows.  See tools/gen_params.py.

agg_mem_filters_type  - the memtable flows (MemTableSource::run, MemTableQuery::query) build their evaluator
                        with the event_type / FOR <context> / SINCE conditions also for aggregation plans
                        (ConditionEvaluatorBuilder::build_for_events adds add_special_fields unconditionally);
agg_seg_filters_scope - the segment flow builds its evaluator with the FOR <context> / SINCE conditions for
                        aggregation plans (build_for_zones) and AggregationProjection loads the columns those
                        conditions read."""
import re
from gen_params import read, Missing


def body(src, rel, name):
    m = re.search(r"pub fn " + name + r"\s*\(plan: &QueryPlan\)\s*->\s*ConditionEvaluator\s*\{", src)
    if not m:
        return None
    i, depth = m.end(), 1
    while depth and i < len(src):
        depth += {"{": 1, "}": -1}.get(src[i], 0)
        i += 1
    return src[m.end():i - 1]


def gen(out):
    rel = "src/engine/core/filter/condition_evaluator_builder.rs"
    b = read(rel)
    special = re.search(r"pub fn add_special_fields\(&mut self, plan: &QueryPlan\)\s*\{([^}]*)\}", b)
    if not special:
        raise Missing(f"{rel}: add_special_fields")
    sp = special.group(1)
    # either the original body (adds the event_type condition itself) or the split form
    adds_type = "add_event_type_condition(plan)" in sp or '"event_type".to_string()' in b[special.start():special.start() + 900]
    if not adds_type:
        raise Missing(f"{rel}: add_special_fields no longer adds the event_type condition")

    def uses(relp, fn):
        s = read(relp)
        calls = re.findall(r"ConditionEvaluatorBuilder::(\w+)\(", s)
        if not calls:
            raise Missing(f"{relp}: no ConditionEvaluatorBuilder call")
        return calls

    mem_calls = uses("src/engine/core/read/flow/operators/memtable_source.rs", None) + uses("src/engine/core/read/memtable_query.rs", None)
    seg_calls = uses("src/engine/core/read/segment_query_runner.rs", None)

    def filters(fn):
        """(type filtered for aggregates, scope filtered for aggregates) of a builder entry point"""
        bd = body(b, rel, fn)
        if bd is None:
            raise Missing(f"{rel}: builder entry point {fn}")
        guarded = re.search(r"if\s+plan\.aggregate_plan\.is_none\(\)\s*\{\s*builder\.add_special_fields\(plan\);\s*\}\s*else\s*\{(.*?)\}", bd, re.S)
        if guarded:
            els = guarded.group(1)
            return ("add_special_fields(plan)" in els or "add_event_type_condition(plan)" in els,
                    "add_special_fields(plan)" in els or "add_scope_conditions(plan)" in els)
        if re.search(r"builder\.add_special_fields\(plan\);", bd):
            return (True, True)
        raise Missing(f"{rel}: {fn}: unrecognised use of the special-field conditions")

    mem = [filters(f) for f in mem_calls]
    seg = [filters(f) for f in seg_calls]
    if len(set(mem)) != 1:
        raise Missing("the two memtable read paths build different evaluators")
    if len(set(seg)) != 1:
        raise Missing("the segment read paths build different evaluators")
    mem_type, mem_scope = mem[0]
    _seg_type, seg_scope = seg[0]
    if mem_type != mem_scope:
        raise Missing("memtable evaluator filters the event type and the scope differently")
    if seg_scope:
        pr = read("src/engine/core/read/projection/strategies.rs")
        agg = pr[pr.index("impl<'a> ProjectionStrategy for AggregationProjection<'a>"):]
        if not (re.search(r"if self\.plan\.context_id\(\)\.is_some\(\)\s*\{\s*set\.add\(\"context_id\"\);", agg)
                and re.search(r"since: Some\(_\),\s*time_field,", agg)):
            raise Missing("strategies.rs: AggregationProjection does not load the columns FOR/SINCE read")
    out.append(f"Definition agg_mem_filters_type : bool := {'true' if mem_type else 'false'}.")
    out.append(f"Definition agg_seg_filters_scope : bool := {'true' if seg_scope else 'false'}.")
