"""Params plug-in (C17): which variants of `enum Command` have an arm in `dispatch_command`
before the catch-all, and whether the catch-all panics.  See tools/gen_params.py."""
import re
from gen_params import read, Missing


def gen(out):
    trel = "src/command/types.rs"
    tsrc = read(trel)
    m = re.search(r"pub enum Command\s*\{(.*?)\n\}", tsrc, re.S)
    if not m:
        raise Missing(f"{trel}: enum Command")
    body = re.sub(r"//[^\n]*", "", m.group(1))
    # top-level variants: identifiers at brace depth 0 followed by '{', '(' or ','
    variants, depth, i = [], 0, 0
    for tok in re.finditer(r"[{}()]|\b([A-Z]\w*)\b\s*(?=[{(,])|\b([A-Z]\w*)\b\s*$", body, re.M):
        t = tok.group(0)
        if t in "{(":
            depth += 1
        elif t in "})":
            depth -= 1
        elif depth == 0:
            variants.append((tok.group(1) or tok.group(2)).strip())
    expected = ["Define", "Store", "Query", "RememberQuery", "ShowMaterialized", "Replay", "Ping", "Flush", "Batch",
                "Compare", "CreateUser", "RevokeKey", "ListUsers", "GrantPermission", "RevokePermission", "ShowPermissions"]
    if variants != expected:
        raise Missing(f"{trel}: enum Command variants changed: {variants} (the model's ckind lists {expected})")
    drel = "src/command/dispatcher.rs"
    dsrc = re.sub(r"//[^\n]*", "", read(drel))
    m = re.search(r"match cmd \{(.*)\n    \}\n\}", dsrc, re.S)
    if not m:
        raise Missing(f"{drel}: match cmd")
    mb = m.group(1)
    # arm heads: text at the start of an arm up to '=>' at nesting depth 0 of the match body
    heads, depth, cur = [], 0, ""
    i = 0
    while i < len(mb):
        c = mb[i]
        if c in "{(":
            depth += 1
        elif c in "})":
            depth -= 1
        if depth == 0 and mb.startswith("=>", i):
            heads.append(cur.strip())
            cur = ""
            i += 2
            # skip the arm body: either a block or an expression up to the ',' at depth 0
            while i < len(mb) and mb[i].isspace():
                i += 1
            if i < len(mb) and mb[i] == "{":
                d = 0
                while i < len(mb):
                    if mb[i] == "{":
                        d += 1
                    elif mb[i] == "}":
                        d -= 1
                        if d == 0:
                            i += 1
                            break
                    i += 1
            else:
                d = 0
                while i < len(mb):
                    if mb[i] in "{(":
                        d += 1
                    elif mb[i] in "})":
                        d -= 1
                    elif mb[i] == "," and d == 0:
                        i += 1
                        break
                    i += 1
            continue
        cur += c
        i += 1
    armed = set()
    catchall = None
    for h in heads:
        h1 = re.sub(r"\{[^}]*\}|\([^)]*\)", "", h)
        names = [x.strip() for x in h1.split("|")]
        if names == ["_"]:
            catchall = h
        for n in names:
            if n in expected:
                armed.add(n)
    if catchall is None and len(armed) != len(expected):
        raise Missing(f"{drel}: no catch-all arm and not every variant has an arm")
    panics = True
    if catchall is not None:
        tail = mb[mb.rindex("_ =>"):]
        panics = bool(re.search(r"unreachable!|panic!|todo!|unimplemented!", tail))
    out.append(f"Definition dispatch_catchall_panics : bool := {'true' if panics else 'false'}.")
    for v in expected:
        ok = (v in armed) or not panics
        out.append(f"Definition dispatch_arm_{v} : bool := {'true' if ok else 'false'}.")
