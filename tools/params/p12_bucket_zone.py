"""Params plug-in for Model/BucketZone.v (C16, PER buckets in zones whose offset changes): how
CalendarTimeBucketer maps the truncated wall-clock time back to an instant, and the shape of the aggregate sink's
glue in front of it (a pure delegation: nothing remembered between calls).  See tools/gen_params.py."""
import re
from gen_params import read, Missing


def gen(out):
    rel = "src/shared/datetime/time_bucketing.rs"
    src = read(rel)
    n_unwrap = 0
    fns = ("bucket_hour", "bucket_day", "bucket_week", "bucket_month", "bucket_year")
    for fn in fns:
        m = re.search(r"fn " + fn + r"<T: TimeZone>\(&self, dt: DateTime<T>\) -> DateTime<T> \{(.*?)\n    \}", src, re.S)
        if not m:
            raise Missing(f"{rel}: {fn}")
        if re.search(r"\.and_local_timezone\(dt\.timezone\(\)\)\s*\.unwrap\(\)\s*$", m.group(1)):
            n_unwrap += 1
    if n_unwrap == len(fns):
        strict = True        # LocalResult::unwrap: panics when the wall-clock bucket start is ambiguous or skipped
    elif n_unwrap == 0 and ".unwrap()\n    }" not in src.split("pub fn naive_bucket_of")[0].split("fn bucket_hour")[1]:
        strict = False       # every unit resolves the LocalResult (latest start <= instant / first instant after the gap)
    else:
        raise Missing(f"{rel}: bucket_* map the wall-clock start back uniformly (all unwrap or none)")
    out.append(f"Definition bucket_local_unwrap : bool := {'true' if strict else 'false'}.")
    if not re.search(r"let dt = DateTime::from_timestamp\(ts as i64, 0\)\s*\.unwrap_or_else\(\|\| Utc\.timestamp_opt\(0, 0\)\.single\(\)\.unwrap\(\)\)\s*\.with_timezone\(tz\);", src):
        raise Missing(f"{rel}: bucket_of converts the instant with the cached zone")

    # the aggregate sink's entry point: config switch, cached bucketer, delegation - and nothing else
    rel = "src/engine/core/read/sink/aggregate/time_bucketing.rs"
    src = read(rel)
    m = re.search(r"pub fn bucket_of\(ts: u64, gran: &TimeGranularity\) -> u64 \{(.*)\n\}", src, re.S)
    if not m:
        raise Missing(f"{rel}: bucket_of")
    body = re.sub(r"//[^\n]*", "", m.group(1))
    body = re.sub(r"\s+", " ", body).strip()
    want = ("static USE_CALENDAR: OnceLock<bool> = OnceLock::new(); "
            "let use_calendar = *USE_CALENDAR.get_or_init(|| TimeConfig::from_app_config().use_calendar_bucketing); "
            "if use_calendar { let bucketer = CALENDAR_BUCKETER_CACHE.get_or_init(|| { let cfg = TimeConfig::from_app_config(); "
            "let bucketer = CalendarTimeBucketer::new(cfg.clone()); (cfg, bucketer) }); "
            "bucketer.1.bucket_of(ts, gran) } else { naive_bucket(ts, gran) }")
    if body != want or re.search(r"thread_local!|static mut|RefCell|Mutex|Atomic", src):
        raise Missing(f"{rel}: bucket_of is a pure delegation to the cached CalendarTimeBucketer (no state between calls)")
    out.append("Definition sink_bucket_is_pure : bool := true.")
