"""Params plug-in (C11): the file-system steps of SegmentIndex::save, in program order.

index_save_steps : list (nat * nat * nat) - one triple (op, a, b) per file-system call in the body of
    `pub async fn save(&self, shard_dir: &Path)` of src/engine/core/segment/segment_index.rs:
      op 0 = create-and-write file a (File::create / std::fs::write / OpenOptions ... open),
      op 1 = rename a -> b (std::fs::rename / fs::rename / tokio::fs::rename),
      op 2 = remove file a,
      op 3 = copy a -> b;
    names: 0 = the index file (the binding `shard_dir.join("segments.idx")`), 1 = the temporary file (a binding
    derived from it with the extension "idx.tmp"), 2 = any other path.
    A call under an `if` counts (it may run).  A file-system call whose arguments the plug-in cannot name, or a
    body without the two bindings, is Missing.  Model/IndexSave.v runs these steps with a crash after every one of
    them (a created file passes through a partially written state); Props/C11.v proves that every crash state still
    loads the old or the new index.  See tools/gen_params.py."""
import re
from gen_params import read, Missing


def fn_body(src, start):
    i, depth = start, 1
    while depth and i < len(src):
        depth += {"{": 1, "}": -1}.get(src[i], 0)
        i += 1
    return src[start:i - 1]


def gen(out):
    rel = "src/engine/core/segment/segment_index.rs"
    src = re.sub(r"//[^\n]*", "", read(rel))
    m = re.search(r"pub async fn save\(&self, shard_dir: &Path\) -> Result<\(\), StoreError> \{", src)
    if not m:
        raise Missing(f"{rel}: SegmentIndex::save")
    body = fn_body(src, m.end())
    names = {}
    mi = re.search(r"let (\w+) = shard_dir\.join\(\"segments\.idx\"\);", body)
    if not mi:
        raise Missing(f"{rel}: save: `let path = shard_dir.join(\"segments.idx\")`")
    names[mi.group(1)] = 0
    for b in re.finditer(r"let mut (\w+) = (\w+)\.clone\(\);\s*(\w+)\.set_extension\(\"([^\"]+)\"\);", body):
        v, frm, v2, ext = b.groups()
        if v != v2 or frm not in names:
            raise Missing(f"{rel}: save: unrecognised path binding {b.group(0)!r}")
        names[v] = 1 if ext == "idx.tmp" else 2
    if 1 not in names.values():
        raise Missing(f"{rel}: save: no temporary path with extension idx.tmp")

    def nm(expr):
        v = expr.strip().lstrip("&").strip()
        if v not in names:
            raise Missing(f"{rel}: save: file-system call on a path the plug-in cannot name: {expr.strip()!r}")
        return names[v]

    calls = []
    pats = [(0, r"File::create\(([^()]+)\)"), (0, r"(?:std::|tokio::)?fs::write\(([^(),]+),"),
            (1, r"(?:std::|tokio::)?fs::rename\(([^(),]+),([^()]+)\)"),
            (2, r"(?:std::|tokio::)?fs::remove_file\(([^()]+)\)"),
            (3, r"(?:std::|tokio::)?fs::copy\(([^(),]+),([^()]+)\)")]
    for op, pat in pats:
        for c in re.finditer(pat, body):
            a = nm(c.group(1))
            b = nm(c.group(2)) if c.lastindex and c.lastindex >= 2 else a
            calls.append((c.start(), op, a, b))
    # anything else that can touch the directory is not understood
    for bad in ("OpenOptions", "hard_link", "remove_dir", "create_dir", "symlink", "persist(", "set_len"):
        if bad in body:
            raise Missing(f"{rel}: save uses {bad}, which the plug-in does not translate")
    nfs = len(re.findall(r"fs::\w+\(|File::create\(", body))
    if nfs != len(calls):
        raise Missing(f"{rel}: save: {nfs} file-system calls, {len(calls)} understood")
    if not calls:
        raise Missing(f"{rel}: save performs no file-system step")
    calls.sort()
    steps = "; ".join(f"({op}, {a}, {b})" for _, op, a, b in calls)
    out.append("From Coq Require Import List. Import ListNotations.")
    out.append(f"Definition index_save_steps : list (nat * nat * nat) := [{steps}].")
