"""Params plug-in for C07 (value path): see tools/gen_params.py.

Read from the Rust text:
  * to_json: the threshold above which a Utf8 that parses as an unsigned integer is returned as a number;
  * add_payload_field: the keywords that are re-typed, and that the text is trimmed first and the
    ORIGINAL text is kept in the fallback;
  * column_writer.rs: the physical type chosen for each declared field type (plain and Optional);
  * column_group_builder.rs: Null is written as the empty string, var-bytes blocks carry no null bitmap.
"""
import re
from gen_params import read, Missing

CODES = {"VarBytes": 0, "I64": 1, "U64": 2, "F64": 3, "Bool": 4}
FTYPES = ["String", "U64", "I64", "F64", "Bool", "Timestamp", "Date", "Enum"]


def blist(s):
    return "[" + "; ".join(str(b) for b in s.encode()) + "]%N"


def arms(body, rel, wrap):
    """{FieldType name: physical code} from match arms `Some(FieldType::X) | ... => PhysicalType::Y`."""
    out = {}
    for pats, phys in re.findall(r"((?:(?:Some\()?FieldType::\w+\)?\s*\|?\s*)+)=>\s*(?:\{\s*)?PhysicalType::(\w+)", body):
        for name in re.findall(r"FieldType::(\w+)", pats):
            if name == "Optional":
                continue
            out[name] = CODES[phys]
    m = re.search(r"_\s*=>\s*PhysicalType::(\w+)", body)
    if not m:
        raise Missing(f"{rel}: default arm of the {wrap} physical-type match")
    return out, CODES[m.group(1)]


def gen(out):
    rel = "src/engine/types/mod.rs"
    src = read(rel)
    m = re.search(r"pub fn to_json\(&self\).*?ScalarValue::Utf8\(s\) => \{(.*?)ScalarValue::Binary", src, re.S)
    if not m:
        raise Missing(f"{rel}: to_json Utf8 arm")
    body = m.group(1)
    if not re.search(r"JsonValue::Object\(_\)\s*\|\s*JsonValue::Array\(_\)\s*=>\s*return parsed", body):
        raise Missing(f"{rel}: to_json returns parsed objects/arrays")
    if not re.search(r"n\.as_u64\(\)\s*\{\s*if u > i64::MAX as u64\s*\{\s*return parsed", body):
        raise Missing(f"{rel}: to_json large-u64 rule `u > i64::MAX as u64`")
    out.append("Definition value_tojson_u64_threshold : Z := (2 ^ 63 - 1)%Z.")
    m = re.search(r"impl From<JsonValue> for ScalarValue.*?if u <= i64::MAX as u64 \{\s*ScalarValue::Int64\(u as i64\)\s*\} else \{\s*ScalarValue::Utf8\(u\.to_string\(\)\)", src, re.S)
    if not m:
        raise Missing(f"{rel}: From<JsonValue> keeps u64 above i64::MAX as Utf8")

    rel = "src/engine/core/event/event_builder.rs"
    src = read(rel)
    m = re.search(r"fn add_payload_field\(&mut self, field: &str, value: &str\) \{(.*)\n    \}\n\}", src, re.S)
    if not m:
        raise Missing(f"{rel}: add_payload_field")
    body = m.group(1)
    if "let trimmed = value.trim();" not in body:
        raise Missing(f"{rel}: add_payload_field trims with str::trim")
    kws = re.findall(r'"(\w+)"\s*=>\s*\{\s*self\.insert_value\(field, ScalarValue::(\w+)(?:\((\w+)\))?\);', body)
    got = {(k, v, a) for k, v, a in kws}
    want = {("true", "Boolean", "true"), ("false", "Boolean", "false"), ("null", "Null", "")}
    if got != want:
        raise Missing(f"{rel}: add_payload_field keywords, found {sorted(got)}")
    out.append("From Coq Require Import List. Import ListNotations.")
    out.append(f"Definition value_kw_true : list N := {blist('true')}.")
    out.append(f"Definition value_kw_false : list N := {blist('false')}.")
    out.append(f"Definition value_kw_null : list N := {blist('null')}.")
    if "ScalarValue::Utf8(value.to_string())" not in body or "if f.is_finite()" not in body:
        raise Missing(f"{rel}: add_payload_field fallback keeps the original text / finite check")
    if not re.search(r"if trimmed\.starts_with\('-'\)\s*\{\s*if let Ok\(i\) = trimmed\.parse::<i64>\(\)", body) or \
            "trimmed.parse::<u64>()" not in body or "trimmed.parse::<f64>()" not in body:
        raise Missing(f"{rel}: add_payload_field integer/float attempts")

    rel = "src/engine/core/write/column_writer.rs"
    src = read(rel)
    m = re.search(r"match schema\.field_type\(field\) \{(.*?)Some\(FieldType::Optional\(inner\)\) => match inner\.as_ref\(\) \{(.*?)\},\s*_ => PhysicalType::(\w+),", src, re.S)
    if not m:
        raise Missing(f"{rel}: physical type match")
    plain, dflt_plain = arms(m.group(1) + "_ => PhysicalType::" + m.group(3), rel, "plain")
    opt, dflt_opt = arms(m.group(2), rel, "Optional")
    for nm in FTYPES:
        out.append(f"Definition value_phys_{nm.lower()} : N := {plain.get(nm, dflt_plain)}%N.")
    for nm in FTYPES:
        out.append(f"Definition value_phys_opt_{nm.lower()} : N := {opt.get(nm, dflt_opt)}%N.")
    out.append(f"Definition value_phys_opt_optional : N := {dflt_opt}%N.")

    rel = "src/engine/core/write/column_group_builder.rs"
    src = read(rel)
    if not re.search(r"ScalarValue::Null => String::new\(\)", src):
        raise Missing(f"{rel}: Null is written as the empty string")
    m = re.search(r"// VarBytes \(default\)(.*?)out\.insert", src, re.S)
    if not m or not re.search(r"PhysicalType::VarBytes,\s*false,", m.group(1)):
        raise Missing(f"{rel}: var-bytes blocks are written without a null bitmap")
    out.append("Definition value_varbytes_has_nulls : bool := false.")

    # serde_json's float reader: correctly rounded only with the float_roundtrip feature (WAL recovery, to_json re-parsing)
    rel = "Cargo.toml"
    src = read(rel)
    m = re.search(r"\[dependencies\](.*?)(?:\n\[|\Z)", src, re.S)
    if not m:
        raise Missing(f"{rel}: [dependencies]")
    dm = re.search(r"^serde_json\s*=\s*(.+)$", m.group(1), re.M)
    if not dm:
        raise Missing(f"{rel}: serde_json dependency")
    spec = dm.group(1)
    for feat in ("arbitrary_precision", "preserve_order"):
        if feat in spec:
            raise Missing(f"{rel}: serde_json feature {feat} changes the Value model")
    out.append(f"Definition value_serde_float_roundtrip : bool := {'true' if 'float_roundtrip' in spec else 'false'}.")

    # SelectionProjection::compute: are the RETURN fields appended in RETURN order (Vec) or in HashSet order?
    rel = "src/engine/core/read/projection/strategies.rs"
    src = read(rel)
    m = re.search(r"let projected:\s*(\w+)<String>\s*=\s*list\s*\.iter\(\)(.*?)set\.add_many\(projected\);", src, re.S)
    if not m or m.group(1) not in ("Vec", "HashSet"):
        raise Missing(f"{rel}: SelectionProjection::compute `let projected: Vec|HashSet<String> = list.iter()...`")
    if ".filter(" not in m.group(2) or "is_core_field" not in m.group(2):
        raise Missing(f"{rel}: RETURN fields are filtered to core / schema fields")
    out.append(f"Definition value_return_order_stable : bool := {'true' if m.group(1) == 'Vec' else 'false'}.")
