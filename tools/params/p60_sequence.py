"""Params plug-in for C15 (Model/Sequence.v): see tools/gen_params.py.

Read from src/engine/core/read/sequence/matcher.rs:
  * which pointer the final `else` branch of match_preceded_by advances (`a_ptr += 1` since fix 49473e7 = fixes/C15-preceded-by-advance-a.diff, `b_ptr += 1`
    before it)  -> seq_pb_else_advances_a;
  * that the comparisons and pointer moves the model hard-codes are still the ones in the text (FOLLOWED BY: `ts_b >= ts_a`,
    a advances after the WHERE test whatever its result, else b advances; PRECEDED BY: `ts_b < ts_a`, scan `ts_next_b < ts_a`,
    `b_ptr = latest_b_ptr`; timestamps `ts as u64`, missing -> 0; groups sorted by earliest timestamp; truncate at the limit).
"""
import re
from gen_params import read, Missing


def fn_body(src, rel, name):
    m = re.search(r"fn\s+" + name + r"\s*\(", src)
    if not m:
        raise Missing(f"{rel}: fn {name}")
    i = src.index("{", m.end())
    depth, j = 1, i + 1
    while depth and j < len(src):
        depth += {"{": 1, "}": -1}.get(src[j], 0)
        j += 1
    return re.sub(r"//[^\n]*", "", src[i + 1:j - 1])


def gen(out):
    rel = "src/engine/core/read/sequence/matcher.rs"
    src = read(rel)
    fb = fn_body(src, rel, "match_followed_by")
    if "if ts_b >= ts_a {" not in fb:
        raise Missing(f"{rel}: match_followed_by: `if ts_b >= ts_a`")
    m = re.search(r"if passes_where \{.*?\}\s*else\s*\{.*?\}\s*a_ptr \+= 1;\s*\}\s*else\s*\{\s*b_ptr \+= 1;\s*\}", fb, re.S)
    if not m:
        raise Missing(f"{rel}: match_followed_by: a advances after the WHERE test, else b advances")
    pb = fn_body(src, rel, "match_preceded_by")
    if "if ts_b < ts_a {" not in pb or "if ts_next_b < ts_a {" not in pb or "b_ptr = latest_b_ptr;" not in pb:
        raise Missing(f"{rel}: match_preceded_by shape")
    m = re.search(r"b_ptr = latest_b_ptr;\s*\}\s*else\s*\{\s*(a_ptr|b_ptr) \+= 1;\s*\}", pb)
    if not m:
        raise Missing(f"{rel}: match_preceded_by: final else branch")
    out.append(f"Definition seq_pb_else_advances_a : bool := {'true' if m.group(1) == 'a_ptr' else 'false'}.")
    gt = fn_body(src, rel, "get_timestamp")
    if ".map(|ts| ts as u64)" not in gt or not re.search(r"\b0\b", gt):
        raise Missing(f"{rel}: get_timestamp: `ts as u64`, missing -> 0")
    ms = fn_body(src, rel, "match_sequences")
    if "sort_by_key(|(ts, _, _)| *ts)" not in ms or "all_matches.truncate(lim)" not in ms or "earliest_ts.min(ts as u64)" not in ms:
        raise Missing(f"{rel}: match_sequences: group order / truncate")
    rel_g = "src/engine/core/read/sequence/group.rs"
    g = read(rel_g)
    if "timestamped_indices.sort_by_key(|(ts, _)| *ts)" not in g or 'format!("i64:{}", i)' not in g or 'format!("str:{}", s)' not in g:
        raise Missing(f"{rel_g}: sort by timestamp / scalar_to_key")
    rel_u = "src/engine/core/read/sequence/utils.rs"
    u = read(rel_u)
    if "(Some(l), None) => Some(l)" not in u or "(None, Some(r)) => Some(r)" not in u or ".map(|e| Expr::Not(Box::new(e)))" not in u:
        raise Missing(f"{rel_u}: transform_where_clause_for_event_type collapse rules")
