"""Params plug-in (C17): does STORE's balanced_braces rule skip JSON string literals?
See tools/gen_params.py."""
import re
from gen_params import read, Missing


def gen(out):
    rel = "src/command/parser/commands/store.rs"
    src = re.sub(r"//[^\n]*", "", read(rel))
    m = re.search(r"rule\s+balanced_braces\(\)\s*->\s*&'input\s+str\s*=\s*json:\$\((.*?)\)\s*\{\s*json\s*\}", src, re.S)
    if not m:
        raise Missing(f"{rel}: rule balanced_braces")
    body = re.sub(r"\s+", "", m.group(1))
    old = '"{"(balanced_braces()/(!"}"[_]))*"}"'
    new = '"{"(balanced_braces()/json_string()/(!"}"[_]))*"}"'
    # the linear variants of fixes/C17-expr-no-reparse.diff give the same results
    old_lin = '"{"(balanced_braces()/(![\'{\'|\'}\'][_]))*"}"'
    new_lin = '"{"(balanced_braces()/json_string()/(![\'{\'|\'}\'][_]))*"}"'
    rescans = body in (old, new)     # '{' is among the plain characters: an unclosed block is re-read and re-scanned
    if body in (old, old_lin):
        skips = False
    elif body in (new, new_lin):
        skips = True
        js = re.search(r"rule\s+json_string\(\)\s*=\s*(.*?)\n\s*\n", src, re.S)
        want = '"\\""("\\\\"[_]/(![\'"\'|\'\\\\\'][_]))*"\\""'
        if not js or re.sub(r"\s+", "", js.group(1)) != want:
            raise Missing(f"{rel}: rule json_string is not the modelled one")
    else:
        raise Missing(f"{rel}: rule balanced_braces has an unmodelled body {body}")
    out.append(f"Definition store_skips_strings : bool := {'true' if skips else 'false'}.")
    out.append(f"Definition store_brace_rescans : bool := {'true' if rescans else 'false'}.")
