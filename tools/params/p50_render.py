"""Params plug-in for C20 (Model/Render.v): see tools/gen_params.py.

Read from the Rust text:
  * both copies of `logical_to_arrow_type` (shared/response/arrow.rs: stream schema + row-index path;
    engine/core/read/flow/batch.rs: whole-batch path) as tables  logical type name -> Arrow type code;
  * for every Arrow builder of both paths, which `ScalarValue` variants produce a value (every other
    variant is appended as null);
  * the threshold of the Utf8 number branch of `ScalarValue::to_json`;
  * `StatusCode::code`, the sniffing constants and the status table of the HTTP dispatcher.
"""
import re
from gen_params import read, num, Missing

ATYPE = {"DataType::Int64": 0, "DataType::Float64": 1, "DataType::Boolean": 2,
         "DataType::Timestamp(TimeUnit::Millisecond, None)": 3, "DataType::LargeUtf8": 4}


def coq_bytes(s):
    return "[" + "; ".join(str(b) for b in s.encode()) + "]%N" if s else "nil"


def fn_body(src, rel, name):
    m = re.search(r"fn\s+" + name + r"\s*\([^)]*\)[^{]*\{", src)
    if not m:
        raise Missing(f"{rel}: fn {name}")
    i = m.end()
    depth = 1
    while depth and i < len(src):
        depth += {"{": 1, "}": -1}.get(src[i], 0)
        i += 1
    return re.sub(r"//[^\n]*", "", src[m.end():i - 1])


def ltype_table(src, rel, tag, out):
    body = fn_body(src, rel, "logical_to_arrow_type")
    m = re.search(r"match\s+logical_type\s*\{(.*)\}", body, re.S)
    if not m:
        raise Missing(f"{rel}: match logical_type")
    exact, pref, dflt = [], [], None
    for arm in re.finditer(r"((?:\"[^\"]*\"\s*\|?\s*)+|other\s+if\s+other\.starts_with\(\"([^\"]*)\"\)|_)\s*=>\s*(DataType::\w+(?:\([^)]*\))?),",
                           m.group(1)):
        pat, pfx, ty = arm.group(1).strip(), arm.group(2), arm.group(3).strip()
        if ty not in ATYPE:
            raise Missing(f"{rel}: unknown Arrow type {ty!r} in logical_to_arrow_type")
        if pat == "_":
            dflt = ATYPE[ty]
        elif pfx is not None:
            pref.append((pfx, ATYPE[ty]))
        else:
            if pref:
                raise Missing(f"{rel}: an exact arm follows a prefix arm (order matters); translator must be extended")
            for name in re.findall(r"\"([^\"]*)\"", pat):
                exact.append((name, ATYPE[ty]))
    if dflt is None or not exact:
        raise Missing(f"{rel}: logical_to_arrow_type arms not recognised")
    out.append(f"Definition render_ltype_exact_{tag} : list (list N * N) := [" +
               "; ".join(f"({coq_bytes(n)}, {c}%N)" for n, c in exact) + "].")
    out.append(f"Definition render_ltype_prefix_{tag} : list (list N * N) := [" +
               "; ".join(f"({coq_bytes(n)}, {c}%N)" for n, c in pref) + "].")
    out.append(f"Definition render_ltype_default_{tag} : N := {dflt}%N.")


def coqb(b):
    return "true" if b else "false"


# (flag suffix, variant, what the arm must do with the bound value)
WHOLE = {
    "int": ("build_int64_array_from_scalars", [("int64", "Int64", r"append_value\(\*\w+\)"), ("ts", "Timestamp", r"append_value\(\*\w+\)"),
                                                 ("utf8", "Utf8", r"parse::<i64>\(\)")]),
    "float": ("build_float64_array_from_scalars", [("float", "Float64", r"append_value\(\*\w+\)"), ("int64", "Int64", r"append_value\(\*\w+ as f64\)"),
                                                     ("utf8", "Utf8", r"parse::<f64>\(\)")]),
    "bool": ("build_bool_array_from_scalars", [("bool", "Boolean", r"append_value\(\*\w+\)"), ("utf8", "Utf8", r"to_ascii_lowercase\(\)"),
                                                 ("int64", "Int64", r"append_value\(\*\w+ != 0\)")]),
    "ts": ("build_timestamp_array_from_scalars", [("ts", "Timestamp", r"append_value\(\*\w+\)"), ("int64", "Int64", r"append_value\(\*\w+\)"),
                                                    ("utf8", "Utf8", r"parse::<i64>\(\)")]),
}
ROW = {
    "int": ("DataType::Int64 =>", WHOLE["int"][1]),
    "float": ("DataType::Float64 =>", WHOLE["float"][1]),
    "bool": ("DataType::Boolean =>", WHOLE["bool"][1]),
    "ts": ("DataType::Timestamp(TimeUnit::Millisecond, _) =>", WHOLE["ts"][1]),
}
ALL_VARIANTS = ["Null", "Boolean", "Int64", "Float64", "Timestamp", "Utf8", "Binary"]


def arm_text(body, variant, wrapped):
    """Text of the match arm for ScalarValue::<variant>(..) up to the next arm."""
    pat = (r"Some\(ScalarValue::" if wrapped else r"ScalarValue::") + variant + r"(?:\(\w+\))?\)?\s*=>"
    m = re.search(pat, body)
    if not m:
        return None
    rest = body[m.end():]
    n = re.search(r"\n\s*(?:Some\()?(?:ScalarValue::\w+|_|None|other)\b[^\n]*=>", rest)
    return rest[:n.start()] if n else rest


def builder_flags(body, rel, where, spec, prefix, kind, wrapped, out):
    known = {v for _, v, _ in spec}
    for suffix, variant, action in spec:
        t = arm_text(body, variant, wrapped)
        ok = bool(t) and re.search(action, t) is not None and "append_null" not in t.split("else")[0]
        if t and not ok and "append_null" not in t:
            raise Missing(f"{rel}: {where}: arm for {variant} does something the translator does not know: {t.strip()[:80]!r}")
        out.append(f"Definition render_{prefix}_{kind}_{suffix} : bool := {coqb(ok)}.")
    for v in ALL_VARIANTS:
        if v in known or v == "Null":
            continue
        t = arm_text(body, v, wrapped)
        if t and "append_null" not in t:
            raise Missing(f"{rel}: {where}: new arm for ScalarValue::{v} (model has none)")
    if not re.search(r"_\s*=>\s*builder\.append_null\(\)", body):
        raise Missing(f"{rel}: {where}: default arm is not append_null")


def string_builder_ok(body, rel, where, wrapped):
    n = arm_text(body, "Null", wrapped)
    u = arm_text(body, "Utf8", wrapped)
    if not n or "append_null" not in n or not u or not re.search(r"append_value\(\w+\)", u) or "to_string_repr()" not in body:
        raise Missing(f"{rel}: {where}: string builder no longer Null->null, Utf8->value, other->to_string_repr")


def gen(out):
    out.append("From Coq Require Import List. Import ListNotations.")
    rel_a = "src/shared/response/arrow.rs"
    rel_b = "src/engine/core/read/flow/batch.rs"
    a = read(rel_a)
    b = read(rel_b)
    ltype_table(a, rel_a, "arrow", out)
    ltype_table(b, rel_b, "batch", out)
    # whole-batch path = ColumnBatch::to_record_batch in batch.rs
    trb = fn_body(b, rel_b, "to_record_batch")
    for kind, (fname, spec) in WHOLE.items():
        if fname + "(values)" not in trb:
            raise Missing(f"{rel_b}: to_record_batch no longer calls {fname}")
        builder_flags(fn_body(b, rel_b, fname), rel_b, fname, spec, "w", kind, False, out)
    string_builder_ok(fn_body(b, rel_b, "build_string_array_from_scalars"), rel_b, "build_string_array_from_scalars", False)
    wb = fn_body(a, rel_a, "write_batch")
    if "row_indices.is_none()" not in wb or "batch.to_record_batch()" not in wb or "build_record_batch(&self.schema, schema, batch, row_indices)" not in wb:
        raise Missing(f"{rel_a}: write_batch no longer splits into to_record_batch / build_record_batch")
    # row-index path = the `if let Some(indices)` half of build_record_batch in arrow.rs
    brb = fn_body(a, rel_a, "build_record_batch")
    m = re.search(r"if let Some\(indices\) = row_indices \{(.*)\}\s*else\s*\{", brb, re.S)
    if not m:
        raise Missing(f"{rel_a}: build_record_batch: Some(indices) branch")
    half = m.group(1)
    marks = [(half.find(ROW[k][0]), k) for k in ROW]
    if any(p < 0 for p, _ in marks):
        raise Missing(f"{rel_a}: build_record_batch: a DataType arm of the row-index path is missing")
    cut = sorted(marks) + [(half.find("DataType::LargeUtf8 =>"), "str")]
    for (p, k), (q, _) in zip(cut, cut[1:]):
        builder_flags(half[p:q], rel_a, f"build_record_batch[{k}]", ROW[k][1], "r", k, True, out)
    sp = half[cut[-1][0]:]
    if not re.search(r"Some\(ScalarValue::Utf8\(s\)\)\s*=>\s*builder\.append_value\(s\)", sp) or \
       not re.search(r"Some\(ScalarValue::Null\)\s*=>\s*builder\.append_null\(\)", sp) or "to_string_repr()" not in sp:
        raise Missing(f"{rel_a}: build_record_batch: string arm changed")
    # ScalarValue::to_json: Utf8 number branch
    rel_t = "src/engine/types/mod.rs"
    t = read(rel_t)
    tj = fn_body(t, rel_t, "to_json")
    if not re.search(r"if let Some\(u\) = n\.as_u64\(\)\s*\{\s*if u > i64::MAX as u64\s*\{\s*return parsed;", tj):
        raise Missing(f"{rel_t}: to_json: `u > i64::MAX as u64` number branch")
    if "JsonValue::Object(_) | JsonValue::Array(_) => return parsed" not in tj:
        raise Missing(f"{rel_t}: to_json: object/array branch")
    out.append(f"Definition render_json_big_threshold : N := {2 ** 63 - 1}%N.")
    # status codes
    rel_s = "src/shared/response/types.rs"
    s = read(rel_s)
    en = re.search(r"pub enum StatusCode \{(.*?)\}", s, re.S)
    variants = re.findall(r"(\w+),", en.group(1)) if en else []
    if variants != ["Ok", "BadRequest", "Unauthorized", "Forbidden", "NotFound", "InternalError", "ServiceUnavailable"]:
        raise Missing(f"{rel_s}: StatusCode variants changed: {variants}")
    code = fn_body(s, rel_s, "code")
    codes = []
    for v in variants:
        m = re.search(r"StatusCode::" + v + r"\s*=>\s*(\d+)", code)
        if not m:
            raise Missing(f"{rel_s}: StatusCode::code arm {v}")
        codes.append(int(m.group(1)))
    out.append("Definition render_status_codes : list N := [" + "; ".join(f"{c}%N" for c in codes) + "].")
    rel_h = "src/frontend/http/dispatcher.rs"
    h = read(rel_h)
    ex = fn_body(h, rel_h, "extract_http_status_from_response")
    m2 = re.search(r"if output\.len\(\) < (\d+)", ex)
    m3 = re.search(r"output\.len\(\)\.min\((\d+)\)\s*\}", ex)
    if not m2 or not m3 or 'starts_with(b"{")' not in ex or 'w == b"status"' not in ex:
        raise Missing(f"{rel_h}: extract_http_status_from_response shape")
    # where the word "status" is looked for: a fixed window (`let check_len = output.len().min(N)`, the pinned tree) or the
    # part that is parsed anyway (`output[..parse_len]`, after fix c214409)
    m1 = re.search(r"let check_len = output\.len\(\)\.min\((\d+)\)", ex)
    if m1 and "output[..check_len].windows(6)" in ex:
        out.append(f"Definition render_http_sniff_window : option N := Some {int(m1.group(1))}%N.")
    elif "output[..parse_len].windows(6)" in ex and ex.index("let parse_len") < ex.index("output[..parse_len].windows(6)"):
        out.append("Definition render_http_sniff_window : option N := None.")
    else:
        raise Missing(f"{rel_h}: extract_http_status_from_response: where \"status\" is searched")
    # text responses: "<3 digits> <message>" read as the status (after fix c214409) or always 200
    text_hdr = ("output[..3].iter().all(|b| b.is_ascii_digit())" in ex and "output[3] == b' '" in ex
                and "return map_status_code_to_http(code);" in ex)
    if not text_hdr and "is_ascii_digit" in ex:
        raise Missing(f"{rel_h}: extract_http_status_from_response: unrecognised text header handling")
    out.append(f"Definition render_http_text_header : bool := {coqb(text_hdr)}.")
    out.append(f"Definition render_http_parse_full_below : N := {int(m2.group(1))}%N.")
    out.append(f"Definition render_http_parse_prefix : N := {int(m3.group(1))}%N.")
    mp = fn_body(h, rel_h, "map_status_code_to_http")
    arms = re.findall(r"(\d+)\s*=>\s*hyper::StatusCode::(\w+)", mp)
    names = {200: "OK", 400: "BAD_REQUEST", 401: "UNAUTHORIZED", 403: "FORBIDDEN", 404: "NOT_FOUND",
             500: "INTERNAL_SERVER_ERROR", 503: "SERVICE_UNAVAILABLE"}
    for c, n in arms:
        if names.get(int(c)) != n:
            raise Missing(f"{rel_h}: map_status_code_to_http maps {c} to {n}")
    if not re.search(r"_\s*=>\s*hyper::StatusCode::OK", mp):
        raise Missing(f"{rel_h}: map_status_code_to_http default")
    out.append("Definition render_http_known_codes : list N := [" + "; ".join(f"{int(c)}%N" for c, _ in arms) + "].")
