"""Params plug-in for C19 (WAL archive / cleaner): file-name formats, the id filter and the
abort-on-failure branch are read from the Rust text.  See tools/gen_params.py."""
import re
from gen_params import read, Missing


def coq_bytes(s):
    # Params.v imports no list notations: spell the list with cons/nil
    r = "nil"
    for b in reversed(s.encode("utf-8")):
        r = f"(cons {b}%N {r})"
    return r


def gen(out):
    arch = "src/engine/core/wal/wal_archiver.rs"
    clean = "src/engine/core/wal/wal_cleaner.rs"
    arc = "src/engine/core/wal/wal_archive.rs"
    rec = "src/engine/core/wal/wal_archive_recovery.rs"
    a, c, f, r = read(arch), read(clean), read(arc), read(rec)

    # log file name used by archive_log: "wal-{:0W}.log"
    m = re.search(r'fn archive_log\(.*?self\.wal_dir\.join\(format!\("([^"{]*)\{:0(\d+)\}([^"]*)",\s*log_id\)\)', a, re.S)
    if not m:
        raise Missing(f"{arch}: archive_log path format")
    pre, width, suf = m.group(1), int(m.group(2)), m.group(3)

    # the directory scans of archiver and cleaner: strip_prefix / strip_suffix / parse::<u64> / id < keep_from_log_id
    scan = re.compile(r'\.strip_prefix\("([^"]*)"\)\s*\.and_then\(\|s\|\s*s\.strip_suffix\("([^"]*)"\)\)\s*\{\s*'
                      r'if let Ok\(id\) = num\.parse::<(\w+)>\(\)\s*\{\s*if id (<|<=) keep_from_log_id', re.S)
    scans = []
    for rel, src in ((arch, a), (clean, c)):
        m2 = scan.search(src)
        if not m2:
            raise Missing(f"{rel}: directory scan (strip_prefix/strip_suffix/parse::<u64>/id < keep_from_log_id)")
        scans.append(m2.groups())
    if scans[0] != scans[1]:
        raise Missing(f"archiver and cleaner select different files: {scans}")
    spre, ssuf, ty, op = scans[0]
    if ty != "u64":
        raise Missing(f"{arch}: log ids parsed as {ty}, the model assumes u64")
    if (spre, ssuf) != (pre, suf):
        raise Missing(f"{arch}: scan pattern {spre!r}/{ssuf!r} differs from archive_log's file name {pre!r}/{suf!r}")
    out.append(f"Definition walarch_log_prefix : list N := {coq_bytes(pre)}.")
    out.append(f"Definition walarch_log_suffix : list N := {coq_bytes(suf)}.")
    out.append(f"Definition walarch_pad_width : nat := {width}%nat.")
    out.append(f"Definition walarch_eligible (id keep : N) : bool := ({'N.ltb' if op == '<' else 'N.leb'} id keep).")

    # archive file name: "wal-{:0W}-{}-{}.wal.zst" of (log_id, start, end)
    m = re.search(r'fn generate_filename\(&self\) -> String \{\s*format!\(\s*"([^"{]*)\{:0(\d+)\}([^"{]*)\{\}([^"{]*)\{\}([^"]*)",\s*'
                  r'self\.header\.log_id,\s*self\.header\.start_timestamp,\s*self\.header\.end_timestamp', f, re.S)
    if not m:
        raise Missing(f"{arc}: generate_filename format")
    p0, w2, s1, s2, s3 = m.groups()
    out.append(f"Definition walarch_arch_prefix : list N := {coq_bytes(p0)}.")
    out.append(f"Definition walarch_arch_pad_width : nat := {int(w2)}%nat.")
    out.append(f"Definition walarch_arch_sep1 : list N := {coq_bytes(s1)}.")
    out.append(f"Definition walarch_arch_sep2 : list N := {coq_bytes(s2)}.")
    out.append(f"Definition walarch_arch_suffix : list N := {coq_bytes(s3)}.")

    # recovery lists files whose extension equals "zst" and sorts the paths
    m = re.search(r'fn list_archives.*?\.map\(\|ext\| ext == "([^"]+)"\).*?archives\.sort\(\);', r, re.S)
    if not m:
        raise Missing(f"{rec}: list_archives extension filter + sort")
    out.append(f"Definition walarch_ext : list N := {coq_bytes('.' + m.group(1))}.")

    # conservative mode: any archive failure returns before the deletion pass
    m = re.search(r'let failure_count = archive_results\.iter\(\)\.filter\(\|r\| r\.is_err\(\)\)\.count\(\);\s*'
                  r'if failure_count > 0 \{.*?return;\s*\}', c, re.S)
    out.append(f"Definition walarch_abort_on_failure : bool := {'true' if m else 'false'}.")
    if not re.search(r'let conservative_mode = CONFIG\.wal\.conservative_mode;\s*if conservative_mode \{', c):
        raise Missing(f"{clean}: conservative_mode branch")
    # empty archives get start_timestamp 0; timestamps start at u64::MAX / 0 and fold min / max
    if not re.search(r'let mut start_timestamp = u64::MAX;\s*let mut end_timestamp = 0u64;', f):
        raise Missing(f"{arc}: start/end timestamp initial values")
    if not re.search(r'if entry_count == 0 \{\s*start_timestamp = 0;\s*\}', f):
        raise Missing(f"{arc}: empty archive start_timestamp = 0")
    # the archive file is created with File::create (truncates an existing file of the same name)
    out.append(f"Definition walarch_create_truncates : bool := {'true' if 'File::create(&archive_path)?' in f else 'false'}.")
