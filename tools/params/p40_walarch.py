"""Params plug-in for C19 (WAL archive / cleaner): file-name formats, the id filter and the
abort-on-failure branch and the shape of the batch archive (one archive_log per eligible directory entry, no cap) are
read from the Rust text.  See tools/gen_params.py."""
import re
from gen_params import read, Missing


def coq_bytes(s):
    # Params.v imports no list notations: spell the list with cons/nil
    r = "nil"
    for b in reversed(s.encode("utf-8")):
        r = f"(cons {b}%N {r})"
    return r


def gen(out):
    arch = "src/engine/core/wal/wal_archiver.rs"
    clean = "src/engine/core/wal/wal_cleaner.rs"
    arc = "src/engine/core/wal/wal_archive.rs"
    rec = "src/engine/core/wal/wal_archive_recovery.rs"
    a, c, f, r = read(arch), read(clean), read(arc), read(rec)

    # log file name used by archive_log: "wal-{:0W}.log"
    m = re.search(r'fn archive_log\(.*?self\.wal_dir\.join\(format!\("([^"{]*)\{:0(\d+)\}([^"]*)",\s*log_id\)\)', a, re.S)
    if not m:
        raise Missing(f"{arch}: archive_log path format")
    pre, width, suf = m.group(1), int(m.group(2)), m.group(3)

    # the directory scans of archiver and cleaner: strip_prefix / strip_suffix / parse::<u64> / id < keep_from_log_id,
    # optionally restricted to the canonical name of the id (file_name == format!("wal-{:05}.log", id))
    scan = re.compile(r'\.strip_prefix\("([^"]*)"\)\s*\.and_then\(\|s\|\s*s\.strip_suffix\("([^"]*)"\)\)\s*\{\s*'
                      r'if let Ok\(id\) = num\.parse::<(\w+)>\(\)\s*\{\s*(?://[^\n]*\n\s*)*if id (<|<=) keep_from_log_id'
                      r'(?:\s*&&\s*file_name == format!\("([^"{]*)\{:0(\d+)\}([^"]*)",\s*id\))?\s*\{', re.S)
    scans = []
    for rel, src in ((arch, a), (clean, c)):
        m2 = scan.search(src)
        if not m2:
            raise Missing(f"{rel}: directory scan (strip_prefix/strip_suffix/parse::<u64>/id < keep_from_log_id)")
        scans.append(m2.groups())
    if scans[0] != scans[1]:
        raise Missing(f"archiver and cleaner select different files: {scans}")
    spre, ssuf, ty, op, cpre, cwidth, csuf = scans[0]
    if ty != "u64":
        raise Missing(f"{arch}: log ids parsed as {ty}, the model assumes u64")
    if (spre, ssuf) != (pre, suf):
        raise Missing(f"{arch}: scan pattern {spre!r}/{ssuf!r} differs from archive_log's file name {pre!r}/{suf!r}")
    if cpre is not None and (cpre, int(cwidth), csuf) != (pre, width, suf):
        raise Missing(f"{arch}: the scans compare the file name with {cpre!r}{{:0{cwidth}}}{csuf!r}, archive_log opens {pre!r}{{:0{width}}}{suf!r}")
    # shape of the batch archive (the cleaner reads "no Err among the results" as "every eligible file is archived"):
    # the results vector starts empty, the ONLY statement of the scan's innermost branch pushes archive_log(id) for
    # that directory entry, and the vector is returned as it is - no collect-then-cut (truncate / take / limit / skip /
    # drain / retain / chunks / a constant bounding the pass) anywhere in archive_logs_up_to
    fm = re.search(r'pub fn archive_logs_up_to\(\s*&self,\s*keep_from_log_id: u64,?\s*\) -> Vec<Result<PathBuf, std::io::Error>> \{(.*?)\n    \}\n', a, re.S)
    if not fm:
        raise Missing(f"{arch}: archive_logs_up_to(&self, keep_from_log_id: u64) -> Vec<Result<PathBuf, io::Error>>")
    fbody = re.sub(r'//[^\n]*', '', fm.group(1))
    m2 = scan.search(fbody)
    every = bool(m2) and bool(re.match(r'\s*results\.push\(self\.archive_log\(id\)\);\s*\}', fbody[m2.end():])) \
        and len(re.findall(r'\bresults\b\s*(?:=[^=]|\.(?!iter\(\)\.filter|push\(self\.archive_log\(id\)\)))', fbody)) == 1 \
        and bool(re.search(r'let mut results = Vec::new\(\);', fbody)) \
        and bool(re.search(r'\n\s*results\s*$', fbody)) \
        and len(re.findall(r'self\.archive_log\(', fbody)) == 1 \
        and not re.search(r'\.(truncate|take|take_while|skip|skip_while|step_by|drain|retain|split_off|chunks|pop|remove|swap_remove|clear|nth|first|last|resize)\b|\bbreak\b|\breturn\b|\[\s*\.\.', fbody)
    out.append(f"Definition walarch_archives_every_eligible : bool := {'true' if every else 'false'}.")
    out.append(f"Definition walarch_scan_canonical_only : bool := {'true' if cpre is not None else 'false'}.")
    out.append(f"Definition walarch_log_prefix : list N := {coq_bytes(pre)}.")
    out.append(f"Definition walarch_log_suffix : list N := {coq_bytes(suf)}.")
    out.append(f"Definition walarch_pad_width : nat := {width}%nat.")
    out.append(f"Definition walarch_eligible (id keep : N) : bool := ({'N.ltb' if op == '<' else 'N.leb'} id keep).")

    # archive file name: "wal-{:0W}-{}-{}.wal.zst" of (log_id, start, end)
    m = re.search(r'fn generate_filename\(&self\) -> String \{\s*format!\(\s*"([^"{]*)\{:0(\d+)\}([^"{]*)\{\}([^"{]*)\{\}([^"]*)",\s*'
                  r'self\.header\.log_id,\s*self\.header\.start_timestamp,\s*self\.header\.end_timestamp', f, re.S)
    if not m:
        raise Missing(f"{arc}: generate_filename format")
    p0, w2, s1, s2, s3 = m.groups()
    out.append(f"Definition walarch_arch_prefix : list N := {coq_bytes(p0)}.")
    out.append(f"Definition walarch_arch_pad_width : nat := {int(w2)}%nat.")
    out.append(f"Definition walarch_arch_sep1 : list N := {coq_bytes(s1)}.")
    out.append(f"Definition walarch_arch_sep2 : list N := {coq_bytes(s2)}.")
    out.append(f"Definition walarch_arch_suffix : list N := {coq_bytes(s3)}.")

    # recovery lists files whose extension equals "zst" and sorts the paths: as strings, or by the numeric
    # (id, start, end) parsed from "wal-{id}-{start}-{end}.wal.zst" (unparsable names last), ties by path
    m = re.search(r'fn list_archives.*?\.map\(\|ext\| ext == "([^"]+)"\)', r, re.S)
    if not m:
        raise Missing(f"{rec}: list_archives extension filter")
    out.append(f"Definition walarch_ext : list N := {coq_bytes('.' + m.group(1))}.")
    body = r[m.end():]
    body = body[:body.index("Ok(archives)")]
    if re.search(r'archives\.sort\(\);', body):
        numeric = False
        kp, ks, ksep = p0, s3, s1
    else:
        if not re.search(r'archives\.sort_by\(\|a, b\| \{\s*Self::archive_sort_key\(a\)\s*\.cmp\(&Self::archive_sort_key\(b\)\)\s*'
                         r'\.then_with\(\|\| a\.cmp\(b\)\)\s*\}\);', body):
            raise Missing(f"{rec}: list_archives sort (plain sort() or sort_by archive_sort_key then path)")
        k = re.search(r'fn archive_sort_key\(path: &Path\) -> \(u64, u64, u64\) \{.*?\.strip_prefix\("([^"]*)"\)\)\s*'
                      r'\.and_then\(\|n\| n\.strip_suffix\("([^"]*)"\)\)\s*\.and_then\(\|n\| \{\s*'
                      r"let mut it = n\.split\('(.)'\)\.map\(\|x\| x\.parse::<u64>\(\)\.ok\(\)\);\s*"
                      r'match \(it\.next\(\), it\.next\(\), it\.next\(\), it\.next\(\)\) \{\s*'
                      r'\(Some\(Some\(id\)\), Some\(Some\(start\)\), Some\(Some\(end\)\), None\) => Some\(\(id, start, end\)\),\s*'
                      r'_ => None,\s*\}\s*\}\);\s*parsed\.unwrap_or\(\(u64::MAX, u64::MAX, u64::MAX\)\)', r, re.S)
        if not k:
            raise Missing(f"{rec}: archive_sort_key (prefix, suffix, split, three u64 parts, u64::MAX default)")
        numeric = True
        kp, ks, ksep = k.groups()
    out.append(f"Definition walarch_recovery_numeric_sort : bool := {'true' if numeric else 'false'}.")
    out.append(f"Definition walarch_key_prefix : list N := {coq_bytes(kp)}.")
    out.append(f"Definition walarch_key_suffix : list N := {coq_bytes(ks)}.")
    out.append(f"Definition walarch_key_sep : N := {ord(ksep)}%N.")

    # which WAL directory the cleaner's archiver reads: the configured one, or the cleaner's own
    if re.search(r'let archiver = WalArchiver::new\(self\.shard_id\)\.with_wal_dir\(self\.wal_dir\.clone\(\)\);', c):
        if not re.search(r'pub fn with_wal_dir\(mut self, wal_dir: PathBuf\) -> Self \{\s*self\.wal_dir = wal_dir;\s*self\s*\}', a):
            raise Missing(f"{arch}: WalArchiver::with_wal_dir replacing self.wal_dir")
        own = True
    elif re.search(r'let archiver = WalArchiver::new\(self\.shard_id\);', c):
        own = False
    else:
        raise Missing(f"{clean}: construction of the archiver in cleanup_up_to")
    out.append(f"Definition walarch_cleaner_archives_own_dir : bool := {'true' if own else 'false'}.")

    # both readers of a log file iterate BufReader::lines() (so a last line without "\n" is a line); the archiver
    # skips blank lines and lines that do not deserialize, and fails on a line that is not UTF-8
    wr = read("src/engine/core/wal/wal_recovery.rs")
    if not re.search(r'let reader = BufReader::new\(file\);.*?for \(line_num, line\) in reader\.lines\(\)\.enumerate\(\) \{\s*let line = line\?;\s*'
                     r'if line\.trim\(\)\.is_empty\(\) \{\s*continue;\s*\}\s*match serde_json::from_str::<WalEntry>\(&line\) \{\s*Ok\(entry\) => \{', f, re.S):
        raise Missing(f"{arc}: from_wal_file reads the file with reader.lines() / line? / trim-skip / serde_json::from_str::<WalEntry>")
    if not re.search(r'for line_result in reader\.lines\(\) \{\s*match line_result \{\s*Ok\(line\) => match serde_json::from_str::<WalEntry>\(&line\) \{', wr, re.S):
        raise Missing("src/engine/core/wal/wal_recovery.rs: replay_log_file iterates reader.lines() and deserializes each line as WalEntry")
    out.append("Definition walarch_readers_use_lines : bool := true.")

    # conservative mode: any archive failure returns before the deletion pass
    m = re.search(r'let failure_count = archive_results\.iter\(\)\.filter\(\|r\| r\.is_err\(\)\)\.count\(\);\s*'
                  r'if failure_count > 0 \{.*?return;\s*\}', c, re.S)
    out.append(f"Definition walarch_abort_on_failure : bool := {'true' if m else 'false'}.")
    if not re.search(r'let conservative_mode = CONFIG\.wal\.conservative_mode;\s*if conservative_mode \{', c):
        raise Missing(f"{clean}: conservative_mode branch")
    # empty archives get start_timestamp 0; timestamps start at u64::MAX / 0 and fold min / max
    if not re.search(r'let mut start_timestamp = u64::MAX;\s*let mut end_timestamp = 0u64;', f):
        raise Missing(f"{arc}: start/end timestamp initial values")
    if not re.search(r'if entry_count == 0 \{\s*start_timestamp = 0;\s*\}', f):
        raise Missing(f"{arc}: empty archive start_timestamp = 0")
    # the archive file is created with File::create (truncates an existing file of the same name)
    out.append(f"Definition walarch_create_truncates : bool := {'true' if 'File::create(&archive_path)?' in f else 'false'}.")
