"""Params plug-in (C12): ShardManager::get_shard must still be
`DefaultHasher::new(); context_id.hash(&mut hasher); (hasher.finish() as usize) % self.shards.len()`
and STORE must route through it.  That DefaultHasher is SipHash-1-3 with zero keys and that str::hash
appends 0xff are facts of the pinned std (not in /repo); they are constants of Model/SipHash.v and are
tied to the toolchain by the differential run only."""
import re
from gen_params import read, Missing


def gen(out):
    rel = "src/engine/shard/manager.rs"
    src = re.sub(r"//[^\n]*", "", read(rel))
    if not re.search(r"use std::collections::hash_map::DefaultHasher;", src):
        raise Missing(f"{rel}: use std::collections::hash_map::DefaultHasher")
    m = re.search(r"pub fn get_shard\(&self, context_id: &str\) -> &Shard \{(.*?)\n    \}", src, re.S)
    if not m:
        raise Missing(f"{rel}: get_shard")
    body = re.sub(r"\s+", " ", m.group(1)).strip()
    want = ("let mut hasher = DefaultHasher::new(); context_id.hash(&mut hasher); "
            "let shard_id = (hasher.finish() as usize) % self.shards.len(); &self.shards[shard_id]")
    if body != want:
        raise Missing(f"{rel}: get_shard body changed: {body!r}")
    rel2 = "src/command/handlers/store.rs"
    if not re.search(r"let shard = shard_manager\.get_shard\(context_id\);", read(rel2)):
        raise Missing(f"{rel2}: STORE no longer routes through get_shard(context_id)")
    rel3 = "src/command/handlers/query/dispatch/streaming.rs"
    if not re.search(r"for shard in ctx\.shard_manager\.all_shards\(\) \{", read(rel3)):
        raise Missing(f"{rel3}: streaming dispatch no longer iterates all_shards()")
    # `as usize` on the harness target (x86_64): 64 bits
    out.append("Definition route_usize_bits : N := 64%N.")
