"""Params plug-in: see tools/gen_params.py."""
import re
from gen_params import read, const, num, Missing


def gen(out):
    rel = "src/engine/core/event/event_id.rs"
    src = read(rel)
    for rust, coq in [("CUSTOM_EPOCH_MILLIS", "id_epoch_ms"), ("TIMESTAMP_BITS", "id_ts_bits"),
                      ("SHARD_ID_BITS", "id_shard_bits"), ("SEQUENCE_BITS", "id_seq_bits")]:
        out.append(f"Definition {coq} : N := {const(src, rel, rust)}%N.")
    for pat in [r"const SEQUENCE_MASK: u16 = \(1 << SEQUENCE_BITS\) - 1;",
                r"const SHARD_ID_MASK: u64 = \(1 << SHARD_ID_BITS\) - 1;",
                r"millis\.saturating_sub\(CUSTOM_EPOCH_MILLIS\) & \(\(1 << TIMESTAMP_BITS\) - 1\)",
                r"\(timestamp_component << \(SHARD_ID_BITS \+ SEQUENCE_BITS\)\)\s*\|\s*\(shard_component << SEQUENCE_BITS\)\s*\|\s*seq_component"]:
        if not re.search(pat, src):
            raise Missing(f"{rel}: pattern {pat}")
