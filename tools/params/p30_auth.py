"""Params plug-in for C13 (Model/Auth.v): constants, reserved ids, role names, and - per command
kind - which authorisation facts the Rust text currently has:

* `auth_skip_<handler>`   : the handler contains the `uid != BYPASS_USER_ID &&` shortcut;
* `auth_ident_<kind>`     : the `dispatch_command` arm of the kind passes `user_id` to its handler;
* `auth_validate_rejects_reserved` : `validate_user_id` mentions the reserved ids;
* `auth_verify_rejects_reserved`   : `verify_signature` refuses the reserved ids;
* `auth_query_checks_sequence`     : the QUERY handler looks at `event_sequence` before executing.

The model branches on these, so an edit to any of them changes the model that the theorems
are about (and breaks the `_refuted` witnesses of a repaired defect)."""
import re
from gen_params import read, const, Missing


def coq_bytes(s):
    return "[" + "; ".join(str(b) for b in s.encode("utf-8")) + "]%N"


def strconst(src, rel, name):
    m = re.search(r"const\s+" + name + r"\s*:\s*&str\s*=\s*\"([^\"]*)\"\s*;", src)
    if not m:
        raise Missing(f"{rel}: const {name}")
    return m.group(1)


def fn_body(src, rel, name):
    m = re.search(r"fn\s+" + name + r"\b", src)
    if not m:
        raise Missing(f"{rel}: fn {name}")
    i = src.index("{", m.end())
    depth, j = 0, i
    while j < len(src):
        if src[j] == "{":
            depth += 1
        elif src[j] == "}":
            depth -= 1
            if depth == 0:
                return src[i:j + 1]
        j += 1
    raise Missing(f"{rel}: body of fn {name}")


def b(x):
    return "true" if x else "false"


def gen(out):
    out.append("From Coq Require Import List. Import ListNotations.")
    rel = "src/engine/auth/types.rs"
    src = read(rel)
    out.append(f"Definition auth_max_user_id_len : N := {const(src, rel, 'MAX_USER_ID_LENGTH')}%N.")
    out.append(f"Definition auth_max_key_len : N := {const(src, rel, 'MAX_SECRET_KEY_LENGTH')}%N.")
    out.append(f"Definition auth_max_sig_len : N := {const(src, rel, 'MAX_SIGNATURE_LENGTH')}%N.")
    bypass = strconst(src, rel, "BYPASS_USER_ID")
    noauth = strconst(src, rel, "NO_AUTH_USER_ID")
    out.append(f"Definition auth_bypass_id : list N := {coq_bytes(bypass)}.")
    out.append(f"Definition auth_noauth_id : list N := {coq_bytes(noauth)}.")
    # role names: the match arms of PermissionCache::update_user
    body = fn_body(src, rel, "update_user")
    arms = re.findall(r"((?:\"[^\"]+\"\s*\|?\s*)+)=>\s*\{\s*self\.(\w+)\.insert", body)
    sets = {}
    for names, field in arms:
        sets.setdefault(field, []).extend(re.findall(r"\"([^\"]+)\"", names))
    for field, coq in [("admin_users", "auth_roles_admin"), ("read_only_users", "auth_roles_read_only"),
                       ("editor_users", "auth_roles_editor"), ("write_only_users", "auth_roles_write_only")]:
        if field not in sets:
            raise Missing(f"{rel}: update_user arm for {field}")
        out.append(f"Definition {coq} : list (list N) := [" + "; ".join(coq_bytes(n) for n in sets[field]) + "].")
    # can_read / can_write: shape of the decision (checked literally, the model is written for this shape)
    cr = fn_body(src, rel, "can_read")
    cw = fn_body(src, rel, "can_write")
    for pat, where in [(r"if self\.admin_users\.contains\(user_id\)\s*\{\s*return true;", "can_read admin"),
                       (r"if perms\.read\s*\{\s*return true;", "can_read perms.read"),
                       (r"if !perms\.read && !perms\.write\s*\{\s*return false;", "can_read explicit denial"),
                       (r"self\.read_only_users\.contains\(user_id\) \|\| self\.editor_users\.contains\(user_id\)", "can_read roles")]:
        if not re.search(pat, cr):
            raise Missing(f"{rel}: {where}")
    for pat, where in [(r"if self\.admin_users\.contains\(user_id\)\s*\{\s*return true;", "can_write admin"),
                       (r"return perms\.write;", "can_write perms override"),
                       (r"self\.editor_users\.contains\(user_id\) \|\| self\.write_only_users\.contains\(user_id\)", "can_write roles")]:
        if not re.search(pat, cw):
            raise Missing(f"{rel}: {where}")

    # user id validation
    rel = "src/engine/auth/user_ops.rs"
    src = read(rel)
    v = fn_body(src, rel, "validate_user_id")
    if not re.search(r"c\.is_alphanumeric\(\) \|\| c == '_' \|\| c == '-'", v):
        raise Missing(f"{rel}: validate_user_id character class")
    rejects = ("BYPASS_USER_ID" in v) or (f'"{bypass}"' in v)
    cu = fn_body(src, rel, "create_user_with_roles")
    rejects = rejects or ("BYPASS_USER_ID" in cu) or (f'"{bypass}"' in cu)
    out.append(f"Definition auth_validate_rejects_reserved : bool := {b(rejects)}.")

    # signature / parse_auth
    rel = "src/engine/auth/signature.rs"
    src = read(rel)
    for pat in [r"signature\.len\(\) > MAX_SIGNATURE_LENGTH", r"user_id\.len\(\) > MAX_USER_ID_LENGTH",
                r"if !user_key\.active", r"user_id\.is_empty\(\) \|\| user_id\.len\(\) > MAX_USER_ID_LENGTH"]:
        if not re.search(pat, src):
            raise Missing(f"{rel}: {pat}")

    vs = fn_body(src, rel, "verify_signature")
    out.append(f"Definition auth_verify_rejects_reserved : bool := {b('BYPASS_USER_ID' in vs or (chr(34) + bypass + chr(34)) in vs)}.")

    # token expiry comparison and token length bound of the TCP gate
    rel = "src/engine/auth/manager.rs"
    src = read(rel)
    if not re.search(r"if session\.expires_at < now", src):
        raise Missing(f"{rel}: session.expires_at < now")
    rel = "src/frontend/tcp/listener.rs"
    src = read(rel)
    m = re.search(r"!token\.is_empty\(\) && token\.len\(\) <= (\d+)", src)
    if not m:
        raise Missing(f"{rel}: token length bound")
    out.append(f"Definition auth_token_max_len : N := {int(m.group(1))}%N.")
    if 'trimmed.rfind(" TOKEN ")' not in src or 'bytes_eq_ignore_ascii_case(&trimmed_bytes[..5], b"AUTH ")' not in src:
        raise Missing(f"{rel}: TOKEN / AUTH recognition")

    # handlers: the reserved-id shortcut
    for handler, rel in [("store", "src/command/handlers/store.rs"), ("query", "src/command/handlers/query/handler.rs"),
                         ("define", "src/command/handlers/define.rs"), ("users", "src/command/handlers/auth.rs"),
                         ("perms", "src/command/handlers/permissions.rs")]:
        src = read(rel)
        skip = re.search(r"\w+\s*!=\s*BYPASS_USER_ID\s*&&", src) is not None
        if not skip and "BYPASS_USER_ID" in src:
            raise Missing(f"{rel}: BYPASS_USER_ID used in an unrecognised way")
        out.append(f"Definition auth_skip_{handler} : bool := {b(skip)}.")
    q = read("src/command/handlers/query/handler.rs")
    hd = q.split("pipeline", 1)[0]
    out.append(f"Definition auth_query_checks_sequence : bool := {b('event_sequence' in hd)}.")

    # dispatcher arms: does the arm hand `user_id` to the handler?
    rel = "src/command/dispatcher.rs"
    src = read(rel)
    body = fn_body(src, rel, "dispatch_command")
    for kind, pat in [("replay", r"\bReplay\s*\{\s*\.\.\s*\}\s*=>"), ("show", r"ShowMaterialized\s*\{\s*\.\.\s*\}\s*=>"),
                      ("remember", r"RememberQuery\s*\{\s*\.\.\s*\}\s*=>"), ("compare", r"\bCompare\s*\{\s*\.\.\s*\}\s*=>"),
                      ("flush", r"Flush\s*\{\s*\.\.\s*\}\s*=>|Flush\s*=>"), ("store", r"\bStore\s*\{\s*\.\.\s*\}\s*=>"),
                      ("query", r"\bQuery\s*\{\s*\.\.\s*\}\s*=>"), ("define", r"\bDefine\s*\{\s*\.\.\s*\}\s*=>")]:
        m = re.search(pat, body)
        if not m:
            raise Missing(f"{rel}: dispatch arm {kind}")
        rest = body[m.end():]
        # the arm ends at the next top-level `=>` of the match
        nxt = re.search(r"\n\s{8}\w[\w\s{}.|]*=>", rest)
        arm = rest[:nxt.start()] if nxt else rest
        out.append(f"Definition auth_ident_{kind} : bool := {b('user_id' in arm)}.")
    if not re.search(r"CreateUser\s*\{\s*\.\.\s*\}\s*\|\s*RevokeKey\s*\{\s*\.\.\s*\}\s*\|\s*ListUsers\s*=>", body) or \
       not re.search(r"GrantPermission\s*\{\s*\.\.\s*\}\s*\|\s*RevokePermission\s*\{\s*\.\.\s*\}\s*\|\s*ShowPermissions\s*\{\s*\.\.\s*\}\s*=>", body):
        raise Missing(f"{rel}: user / permission management arms")
    if "unreachable!(" not in body:
        raise Missing(f"{rel}: fallback arm (Batch) no longer panics - re-model")
