"""Params plug-in for C09 (Model/Agg.v): how the columnar path of the aggregate sink keys the ungrouped aggregators."""
import re
from gen_params import read, Missing


def gen(out):
    rel = "src/engine/core/read/sink/aggregate/columnar.rs"
    src = re.sub(r"//[^\n]*", "", read(rel))
    m = re.search(r"fn process_columnar_slice\s*\((.*?)\n    \}\n", src, re.S)
    if not m:
        raise Missing(f"{rel}: fn process_columnar_slice")
    body = m.group(1)
    k = re.search(r"let default_key = GroupKey \{\s*prehash:\s*([^,]+),", body)
    if not k:
        raise Missing(f"{rel}: process_columnar_slice default_key prehash")
    lit = k.group(1).strip()
    gk = re.sub(r"//[^\n]*", "", read("src/engine/core/read/sink/aggregate/group_key.rs"))
    h = re.search(r"fn compute_prehash\(bucket_val: Option<u64>, groups: &\[GroupValue\]\) -> u64 \{(.*?)\n    \}\n", gk, re.S)
    if not h:
        raise Missing("src/engine/core/read/sink/aggregate/group_key.rs: fn compute_prehash")
    row_zero = re.search(r"if\s+bucket_val\.is_none\(\)\s*&&\s*groups\.is_empty\(\)\s*\{\s*return 0;", h.group(1)) is not None
    if lit == "0":
        two_entries = not row_zero          # columnar key hashes as 0, row-path key as the real hash
    elif "compute_prehash" in lit:
        two_entries = False                 # both paths compute the same pre-hash
    else:
        raise Missing(f"{rel}: unrecognised default_key prehash {lit!r}")
    out.append(f"Definition agg_columnar_default_prehash_zero : bool := {'true' if two_entries else 'false'}.")
    # COUNT UNIQUE over a typed i64 column: without a get_i64_at fallback every typed cell counts as ""
    opsrc = re.sub(r"//[^\n]*", "", read("src/engine/core/read/aggregate/ops.rs"))
    mu = re.search(r"impl CountUnique \{.*?pub fn update\(&mut self, row_idx: usize, columns: &HashMap<String, ColumnValues>\) \{(.*?)\n    \}\n", opsrc, re.S)
    if not mu or "get_str_at" not in mu.group(1):
        raise Missing("src/engine/core/read/aggregate/ops.rs: CountUnique::update")
    out.append(f"Definition agg_count_unique_typed_empty : bool := {'false' if 'get_i64_at' in mu.group(1) else 'true'}.")
    # the i64 sums are plain `+=` (wrapping in release builds): the model wraps
    ops = re.sub(r"//[^\n]*", "", read("src/engine/core/read/aggregate/ops.rs"))
    if "self.sum += v;" not in ops or "checked_add" in ops or "saturating_add" in ops:
        raise Missing("src/engine/core/read/aggregate/ops.rs: plain `self.sum += v` accumulation")
    part = re.sub(r"//[^\n]*", "", read("src/engine/core/read/aggregate/partial.rs"))
    if "=> *a += *b" not in part:
        raise Missing("src/engine/core/read/aggregate/partial.rs: AggState::merge `*a += *b`")
