"""Params plug-in for C08 part B (enum bitmaps, temporal indexes, xor keys): see tools/gen_params.py.

Everything the models in Model/ZoneSel.v, EnumBitmap.v, Temporal.v, XorKey.v take from the Rust *text*:
bucket sizes and loop steps, the width the bucket id / rows_per_zone are truncated to, the stride of the
per-zone temporal index, which comparison operators each pruner answers, the clamping of the probe literal,
the "non-negative range only" guard of the calendar, and what the field selector does when a pruner
answers `None` (all zones or no zones)."""
import re
from gen_params import read, num, Missing


def need(rel, src, pat, what=None, flags=re.S):
    m = re.search(pat, src, flags)
    if not m:
        raise Missing(f"{rel}: {what or pat}")
    return m


def arm_none_all(rel, src, variant):
    """In FieldSelector::select_for_segment: what the arm of `variant` does when the pruner returned None.
    Returns 'empty' (return Vec::new()), 'all' (all zones of the segment) or 'inflight' (all zones only
    while the segment is in flight, else none)."""
    m = need(rel, src, r"IndexStrategy::" + variant + r"[^=]*=>\s*\{(.*?)\n                \}", f"arm {variant}")
    body = m.group(1)
    if "if let Some(z)" not in body:
        raise Missing(f"{rel}: arm {variant}: expected `if let Some(z) = ...`")
    els = body.split("} else", 1)
    if len(els) != 2:
        raise Missing(f"{rel}: arm {variant}: no else branch")
    rest = els[1]
    if "is_segment_inflight" in rest:
        tail = rest.split("} else {")[-1]
        if "return Vec::new()" in tail:
            return "inflight"
        raise Missing(f"{rel}: arm {variant}: unrecognised in-flight fallback")
    if "return Vec::new()" in rest and "create_all_zones" not in rest and "collect_zones_for_scope" not in rest:
        return "empty"
    if "create_all_zones" in rest or "collect_zones_for_scope" in rest:
        return "all"
    raise Missing(f"{rel}: arm {variant}: unrecognised None fallback")


def gen(out):
    # ---- bucket sizes (naive_bucket_of) and the calendar
    rel = "src/shared/datetime/time_bucketing.rs"
    src = read(rel)
    body = need(rel, src, r"pub fn naive_bucket_of\(ts: u64, gran: &TimeGranularity\) -> u64 \{(.*?)\n\}").group(1)
    for gran, coq in (("Hour", "zidx_hour_secs"), ("Day", "zidx_day_secs")):
        m = need(rel, body, r"TimeGranularity::" + gran + r"\s*=>\s*\(ts\s*/\s*([0-9_]+)\)\s*\*\s*([0-9_]+)\s*,", f"naive_bucket_of {gran}")
        if num(m.group(1)) != num(m.group(2)):
            raise Missing(f"{rel}: naive_bucket_of {gran}: divisor and multiplier differ")
        out.append(f"Definition {coq} : N := {num(m.group(1))}%N.")

    rel = "src/engine/core/time/temporal_calendar_index.rs"
    src = read(rel)
    need(rel, src, r"fn bucket_id\(ts: u64, gran: TimeGranularity\) -> u32 \{\s*let start = naive_bucket_of\(ts, &gran\);\s*\(start & u32::MAX as u64\) as u32", "bucket_id truncation to u32")
    out.append("Definition zidx_bucket_bits : N := 32%N.")
    m = need(rel, src, r"naive_bucket_of\(min_ts, &TimeGranularity::Hour\);\s*let end = naive_bucket_of\(max_ts, &TimeGranularity::Hour\);\s*while t <= end \{.*?t \+= ([0-9_]+);", "hour loop of add_zone_range")
    out.append(f"Definition zidx_hour_step : N := {num(m.group(1))}%N.")
    m = need(rel, src, r"naive_bucket_of\(min_ts, &TimeGranularity::Day\);\s*let end_day = naive_bucket_of\(max_ts, &TimeGranularity::Day\);\s*while td <= end_day \{.*?td \+= ([0-9_]+);", "day loop of add_zone_range")
    out.append(f"Definition zidx_day_step : N := {num(m.group(1))}%N.")
    # the three range lookups use the day map with >= / <= on the truncated ids
    need(rel, src, r"fn zones_for_ge.*?if \*bucket >= start_b \{", "zones_for_ge comparison")
    need(rel, src, r"fn zones_for_le.*?if \*bucket <= end_b \{", "zones_for_le comparison")
    need(rel, src, r"fn zones_for_ts.*?if let Some\(bm\) = self\.hour\.get\(&hb\) \{\s*return bm\.clone\(\);\s*\}.*?if let Some\(bm\) = self\.day\.get\(&db\)", "zones_for_ts hour-then-day")
    for op in ("Eq", "Gt | CompareOp::Gte", "Lt | CompareOp::Lte"):
        need(rel, src, r"CompareOp::" + re.escape(op) + r" => \{\s*if v < 0 \{\s*return RoaringBitmap::new\(\);", f"zones_intersecting {op}: negative -> empty")

    # ---- per-zone temporal index and builder
    rel = "src/engine/core/time/temporal_builder.rs"
    src = read(rel)
    ms = re.findall(r"ZoneTemporalIndex::from_timestamps\([a-z_]+\.clone\(\),\s*([0-9_]+),\s*[0-9_]+\)", src)
    if len(ms) != 2 or len(set(ms)) != 1:
        raise Missing(f"{rel}: from_timestamps(.., stride, ..) twice with one stride, got {ms}")
    out.append(f"Definition zidx_stride : Z := {num(ms[0])}%Z.")
    n = len(re.findall(r"if min_ts >= 0 && max_ts >= 0 \{", src))
    if n != 2:
        raise Missing(f"{rel}: expected the `min_ts >= 0 && max_ts >= 0` calendar guard twice, found {n}")
    out.append("Definition zidx_cal_requires_nonneg : bool := true.")
    rel = "src/engine/core/time/zone_temporal_index.rs"
    src = read(rel)
    need(rel, src, r"\.map\(\|&t\| \(\(t - min_ts\) / stride\)\.max\(0\) as u64\)", "from_timestamps key formula")
    need(rel, src, r"if ts < self\.min_ts \|\| ts > self\.max_ts \{\s*return false;", "contains_ts bounds")

    # ---- temporal pruner: literal handling and operators
    rel = "src/engine/core/zone/selector/pruner/temporal_pruner.rs"
    src = read(rel)
    need(rel, src, r"ScalarValue::Int64\(i\) => \(\*i\)\.max\(0\) as u64,\s*ScalarValue::Timestamp\(t\) => \(\*t\)\.max\(0\) as u64,", "integer literal clamp")
    need(rel, src, r"parse_str_to_epoch_seconds\(s, TimeKind::DateTime\)\s*\{\s*parsed\.max\(0\) as u64\s*\} else \{\s*s\.parse::<u64>\(\)\.ok\(\)\.unwrap_or\(0\)", "string literal: time, else u64, else 0")
    need(rel, src, r"_ => 0,\s*\};", "other literal kinds -> 0")
    out.append("Definition zidx_clamp_negative : bool := true.")
    need(rel, src, r"CompareOp::Gt => zti\.max_ts > ts as i64,\s*CompareOp::Gte => zti\.max_ts >= ts as i64,\s*CompareOp::Lt => zti\.min_ts < ts as i64,\s*CompareOp::Lte => zti\.min_ts <= ts as i64,", "per-zone overlap tests")
    handles_neq = bool(re.search(r"CompareOp::Neq\s*(\||=>)", src))
    need(rel, src, r"_ => \{\}\s*\}\s*None\s*\}", "other operators -> None")
    out.append(f"Definition zidx_temporal_handles_neq : bool := {'true' if handles_neq else 'false'}.")

    # ---- enum bitmap
    rel = "src/engine/core/zone/enum_bitmap_index.rs"
    src = read(rel)
    need(rel, src, r"let rows_per_zone = \(zone_plans\[0\]\.end_index - zone_plans\[0\]\.start_index \+ 1\) as u16;", "rows_per_zone from the first zone, as u16")
    out.append("Definition zidx_rpz_bits : N := 16%N.")
    need(rel, src, r"let bytes = \(bits \+ 7\) / 8;", "alloc_bitmap size")
    need(rel, src, r"let byte = idx / 8;\s*let bit = idx % 8;\s*bytes\[byte\] \|= 1u8 << bit;", "set_bit")
    rel = "src/engine/core/zone/selector/pruner/enum_pruner.rs"
    src = read(rel)
    m = need(rel, src, r"if !matches!\(op, ([^)]*)\) \{\s*return None;", "enum pruner operator gate")
    ops = set(x.strip() for x in m.group(1).split("|"))
    if "CompareOp::Eq" not in ops:
        raise Missing(f"{rel}: enum pruner no longer answers Eq")
    out.append(f"Definition zidx_enum_handles_neq : bool := {'true' if 'CompareOp::Neq' in ops else 'false'}.")
    undeclared_none = bool(re.search(r"let Some\(variant_id\) = index\.variants\.iter\(\)\.position\(\|v\| v == val_str\) else \{\s*return None;", src))
    out.append(f"Definition zidx_enum_undeclared_none : bool := {'true' if undeclared_none else 'false'}.")
    if not undeclared_none:
        # a repaired pruner must say what it does instead; the model only knows these two behaviours
        need(rel, src, r"position\(\|v\| v == val_str\)", "variant lookup")

    # ---- xor pruner / filters
    rel = "src/engine/core/zone/selector/pruner/xor_pruner.rs"
    src = read(rel)
    gates = re.findall(r"if !matches!\(op, ([^)]*)\) \{\s*return None;", src)
    if len(gates) != 2:
        raise Missing(f"{rel}: expected two operator gates, found {len(gates)}")
    out.append(f"Definition zidx_xor_handles_neq : bool := {'true' if any('Neq' in g for g in gates) else 'false'}.")
    rel = "src/engine/core/zone/zone_xor_index.rs"
    src = read(rel)
    need(rel, src, r"if values\.is_empty\(\) \{\s*continue;", "zones without a value get no filter")
    need(rel, src, r"Ok\(filter\) => index\.put_zone_filter\(zone\.id, filter\),\s*Err\(e\) => \{", "construction failure skips the zone")
    need(rel, src, r"if index\.filters\.is_empty\(\) \{\s*None", "no filter at all -> no index")
    rel = "src/shared/hash.rs"
    src = read(rel)
    need(rel, src, r"let mut hasher = FxHasher::default\(\);\s*value\.hash\(&mut hasher\);\s*hasher\.finish\(\)", "stable_hash64 = FxHasher")

    # ---- what the selector does with a pruner's None
    rel = "src/engine/core/zone/selector/field_selector.rs"
    src = read(rel)
    names = [("TemporalEq \\{ \\.\\. \\} \\| IndexStrategy::TemporalRange", "zidx_sel_temporal"),
             ("EnumBitmap", "zidx_sel_enum"), ("ZoneXorIndex", "zidx_sel_zxf"), ("XorPresence", "zidx_sel_xf")]
    code = {"empty": 0, "all": 1, "inflight": 2}
    for variant, coq in names:
        k = arm_none_all(rel, src, variant)
        out.append(f"Definition {coq}_none : N := {code[k]}%N. (* 0 = no zones, 1 = all zones, 2 = all zones only while in flight *)")
