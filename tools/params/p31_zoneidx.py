"""Params plug-in for C08 part B (enum bitmaps, temporal indexes, xor keys): see tools/gen_params.py.

Everything the models in Model/ZoneSel.v, EnumBitmap.v, Temporal.v, XorKey.v take from the Rust *text*:
bucket sizes and loop steps, the width the bucket id / rows_per_zone are truncated to, the stride of the
per-zone temporal index, which comparison operators each pruner answers, the clamping of the probe literal,
the "non-negative range only" guard of the calendar, and what the field selector does when a pruner
answers `None` (all zones or no zones)."""
import re
from gen_params import read, num, Missing


def need(rel, src, pat, what=None, flags=re.S):
    m = re.search(pat, src, flags)
    if not m:
        raise Missing(f"{rel}: {what or pat}")
    return m


def arm_none_all(rel, src, variant):
    """In FieldSelector::select_for_segment, the arm of `variant`.  Returns (bypass, ops, fallback):
    bypass   - True when the arm starts with `if !matches!(operation, Some(CompareOp::Eq)) { all zones }`
               (the pruner is not consulted for an operator other than `=`);
    ops      - the operators listed in `else if matches!(operation, ...) { all zones }` after the pruner
               answered None (["*"] for `else if !matches!(operation, Some(CompareOp::Eq))`: every operator but =);
    fallback - what the final else does with a None: 'empty' (return Vec::new()), 'all', or 'inflight'
               (all zones only while the segment is in flight, else none)."""
    m = need(rel, src, r"IndexStrategy::" + variant + r"[^=]*=>\s*\{(.*?)\n                \}", f"arm {variant}")
    body = re.sub(r"//[^\n]*", "", m.group(1))
    allz = r"candidate_zones\s*=\s*collect_zones_for_scope\(self\.qplan, self\.caches, segment_id, Some\(uid\)\);"
    bypass = False
    mb = re.match(r"\s*if !matches!\(operation, Some\(CompareOp::Eq\)\) \{\s*" + allz + r"\s*\} else (if let Some\(z\).*)$", body, re.S)
    if mb:
        bypass = True
        body = mb.group(1)
    mp = re.match(r"\s*if let Some\(z\) = self\.\w+\.\w+\(&args\) \{\s*candidate_zones = z;\s*\} else (.*)$", body, re.S)
    if not mp:
        raise Missing(f"{rel}: arm {variant}: expected `if let Some(z) = <pruner>(&args) {{ candidate_zones = z; }} else ...`")
    rest = mp.group(1)
    ops = []
    mo = re.match(r"if matches!\(operation, ([^)]*(?:\)[^)]*)*?)\) \{\s*" + allz + r"\s*\} else (.*)$", rest, re.S)
    if mo:
        ops = re.findall(r"Some\(CompareOp::(\w+)\)", mo.group(1))
        if not ops:
            raise Missing(f"{rel}: arm {variant}: operator list of the None fallback not understood")
        rest = mo.group(2)
    mn = re.match(r"if !matches!\(operation, Some\(CompareOp::Eq\)\) \{\s*" + allz + r"\s*\} else (.*)$", rest, re.S)
    if mn:
        if ops:
            raise Missing(f"{rel}: arm {variant}: two operator fallbacks after a None")
        ops = ["*"]          # every operator other than `=`
        rest = mn.group(1)
    if "is_segment_inflight" in rest:
        tail = rest.split("} else {")[-1]
        if "return Vec::new()" in tail and "collect_zones_for_scope" in rest.split("} else {")[0]:
            return bypass, ops, "inflight"
        raise Missing(f"{rel}: arm {variant}: unrecognised in-flight fallback")
    if re.fullmatch(r"\{\s*return Vec::new\(\);\s*\}\s*", rest):
        return bypass, ops, "empty"
    if re.fullmatch(r"\{\s*(" + allz + r"|candidate_zones\s*=\s*CandidateZone::create_all_zones_for_segment_from_meta_cached\([^;]*\);)\s*\}\s*", rest, re.S):
        return bypass, ops, "all"
    raise Missing(f"{rel}: arm {variant}: unrecognised None fallback")


def gen(out):
    # ---- bucket sizes (naive_bucket_of) and the calendar
    rel = "src/shared/datetime/time_bucketing.rs"
    src = read(rel)
    body = need(rel, src, r"pub fn naive_bucket_of\(ts: u64, gran: &TimeGranularity\) -> u64 \{(.*?)\n\}").group(1)
    for gran, coq in (("Hour", "zidx_hour_secs"), ("Day", "zidx_day_secs")):
        m = need(rel, body, r"TimeGranularity::" + gran + r"\s*=>\s*\(ts\s*/\s*([0-9_]+)\)\s*\*\s*([0-9_]+)\s*,", f"naive_bucket_of {gran}")
        if num(m.group(1)) != num(m.group(2)):
            raise Missing(f"{rel}: naive_bucket_of {gran}: divisor and multiplier differ")
        out.append(f"Definition {coq} : N := {num(m.group(1))}%N.")

    rel = "src/engine/core/time/temporal_calendar_index.rs"
    src = read(rel)
    need(rel, src, r"fn bucket_id\(ts: u64, gran: TimeGranularity\) -> u32 \{\s*let start = naive_bucket_of\(ts, &gran\);\s*\(start & u32::MAX as u64\) as u32", "bucket_id truncation to u32")
    out.append("Definition zidx_bucket_bits : N := 32%N.")
    m = need(rel, src, r"naive_bucket_of\(min_ts, &TimeGranularity::Hour\);\s*let end = naive_bucket_of\(max_ts, &TimeGranularity::Hour\);\s*while t <= end \{.*?t \+= ([0-9_]+);", "hour loop of add_zone_range")
    out.append(f"Definition zidx_hour_step : N := {num(m.group(1))}%N.")
    m = need(rel, src, r"naive_bucket_of\(min_ts, &TimeGranularity::Day\);\s*let end_day = naive_bucket_of\(max_ts, &TimeGranularity::Day\);\s*while td <= end_day \{.*?td \+= ([0-9_]+);", "day loop of add_zone_range")
    out.append(f"Definition zidx_day_step : N := {num(m.group(1))}%N.")
    # the three range lookups use the day map with >= / <= on the truncated ids
    need(rel, src, r"fn zones_for_ge.*?if \*bucket >= start_b \{", "zones_for_ge comparison")
    need(rel, src, r"fn zones_for_le.*?if \*bucket <= end_b \{", "zones_for_le comparison")
    need(rel, src, r"fn zones_for_ts.*?if let Some\(bm\) = self\.hour\.get\(&hb\) \{\s*return bm\.clone\(\);\s*\}.*?if let Some\(bm\) = self\.day\.get\(&db\)", "zones_for_ts hour-then-day")
    for op in ("Eq", "Gt | CompareOp::Gte", "Lt | CompareOp::Lte"):
        need(rel, src, r"CompareOp::" + re.escape(op) + r" => \{\s*if v < 0 \{\s*return RoaringBitmap::new\(\);", f"zones_intersecting {op}: negative -> empty")

    # ---- per-zone temporal index and builder
    rel = "src/engine/core/time/temporal_builder.rs"
    src = read(rel)
    ms = re.findall(r"ZoneTemporalIndex::from_timestamps\([a-z_]+\.clone\(\),\s*([0-9_]+),\s*[0-9_]+\)", src)
    if len(ms) != 2 or len(set(ms)) != 1:
        raise Missing(f"{rel}: from_timestamps(.., stride, ..) twice with one stride, got {ms}")
    out.append(f"Definition zidx_stride : Z := {num(ms[0])}%Z.")
    # calendar range of a zone, separately for the fixed `timestamp` column and for payload fields:
    # mode 0 = only when min_ts >= 0 && max_ts >= 0 (else the zone is left out), 1 = always, clamped at 0
    for key, coq in ((r'"timestamp"\.to_string\(\)', "zidx_cal_mode_ts"), (r"field\.clone\(\)", "zidx_cal_mode_field")):
        ent = r"let entry = calendars\s*\.entry\(" + key + r"\)\s*\.or_insert_with\([^;]*;\s*"
        if re.search(r"if min_ts >= 0 && max_ts >= 0 \{\s*" + ent + r"entry\.add_zone_range\(zp\.id, min_ts as u64, max_ts as u64\);\s*\}", src):
            mode = 0
        elif re.search(ent + r"entry\.add_zone_range\(zp\.id, min_ts\.max\(0\) as u64, max_ts\.max\(0\) as u64\);", src):
            mode = 1
        else:
            raise Missing(f"{rel}: calendar range of the {coq} branch (guarded or clamped add_zone_range)")
        out.append(f"Definition {coq} : N := {mode}%N. (* 0 = only non-negative zones, 1 = always, clamped at 0 *)")
    rel = "src/engine/core/time/zone_temporal_index.rs"
    src = read(rel)
    need(rel, src, r"\.map\(\|&t\| \(\(t - min_ts\) / stride\)\.max\(0\) as u64\)", "from_timestamps key formula")
    need(rel, src, r"if ts < self\.min_ts \|\| ts > self\.max_ts \{\s*return false;", "contains_ts bounds")

    # ---- temporal pruner: literal handling and operators
    rel = "src/engine/core/zone/selector/pruner/temporal_pruner.rs"
    src = read(rel)
    # the literal's instant stays signed; only the calendar lookup is clamped at 0; a string that is not a time
    # literal is probed as i64::MIN; other kinds as 0
    need(rel, src, r"let ts: i64 = match value \{\s*ScalarValue::Int64\(i\) => \*i,\s*ScalarValue::Timestamp\(t\) => \*t,", "integer literal kept signed")
    need(rel, src, r"match TimeParser::parse_str_to_epoch_seconds\(s, TimeKind::DateTime\) \{\s*Some\(parsed\) => parsed,(?:\s*//[^\n]*)*\s*None => i64::MIN,", "string literal: time, else i64::MIN")
    need(rel, src, r"_ => 0,\s*\};", "other literal kinds -> 0")
    need(rel, src, r"let cal_ts: i64 = ts\.max\(0\);", "calendar lookup clamped at 0")
    if len(re.findall(r"cal\.zones_intersecting\((?:CompareOp::Eq|cmp), cal_ts\)", src)) != 4 or "ts as i64" in src:
        raise Missing(f"{rel}: the four calendar lookups use cal_ts")
    need(rel, src, r"if zti\.contains_ts\(ts\) \{", "per-zone equality test on the signed instant")
    need(rel, src, r"CompareOp::Gt => zti\.max_ts > ts,\s*CompareOp::Gte => zti\.max_ts >= ts,\s*CompareOp::Lt => zti\.min_ts < ts,\s*CompareOp::Lte => zti\.min_ts <= ts,", "per-zone overlap tests")
    handles_neq = bool(re.search(r"CompareOp::Neq\s*(\||=>)", src))
    need(rel, src, r"_ => \{\}\s*\}\s*None\s*\}", "other operators -> None")
    out.append(f"Definition zidx_temporal_handles_neq : bool := {'true' if handles_neq else 'false'}.")

    # ---- enum bitmap
    rel = "src/engine/core/zone/enum_bitmap_index.rs"
    src = read(rel)
    need(rel, src, r"let rows_per_zone = \(zone_plans\[0\]\.end_index - zone_plans\[0\]\.start_index \+ 1\) as u16;", "rows_per_zone from the first zone, as u16")
    out.append("Definition zidx_rpz_bits : N := 16%N.")
    need(rel, src, r"let bytes = \(bits \+ 7\) / 8;", "alloc_bitmap size")
    need(rel, src, r"let byte = idx / 8;\s*let bit = idx % 8;\s*bytes\[byte\] \|= 1u8 << bit;", "set_bit")
    rel = "src/engine/core/zone/selector/pruner/enum_pruner.rs"
    src = read(rel)
    m = need(rel, src, r"if !matches!\(op, ([^)]*)\) \{\s*return None;", "enum pruner operator gate")
    ops = set(x.strip() for x in m.group(1).split("|"))
    if "CompareOp::Eq" not in ops:
        raise Missing(f"{rel}: enum pruner no longer answers Eq")
    out.append(f"Definition zidx_enum_handles_neq : bool := {'true' if 'CompareOp::Neq' in ops else 'false'}.")
    undeclared_none = bool(re.search(r"let Some\(variant_id\) = index\.variants\.iter\(\)\.position\(\|v\| v == val_str\) else \{\s*return None;", src))
    out.append(f"Definition zidx_enum_undeclared_none : bool := {'true' if undeclared_none else 'false'}.")
    if not undeclared_none:
        # a repaired pruner must say what it does instead; the model only knows these two behaviours
        need(rel, src, r"position\(\|v\| v == val_str\)", "variant lookup")

    # ---- xor pruner / filters
    rel = "src/engine/core/zone/selector/pruner/xor_pruner.rs"
    src = read(rel)
    gates = re.findall(r"if !matches!\(op, ([^)]*)\) \{\s*return None;", src)
    if len(gates) != 2:
        raise Missing(f"{rel}: expected two operator gates, found {len(gates)}")
    out.append(f"Definition zidx_xor_handles_neq : bool := {'true' if any('Neq' in g for g in gates) else 'false'}.")
    rel = "src/engine/core/zone/zone_xor_index.rs"
    src = read(rel)
    need(rel, src, r"if values\.is_empty\(\) \{\s*continue;", "zones without a value get no filter")
    need(rel, src, r"Ok\(filter\) => index\.put_zone_filter\(zone\.id, filter\),\s*Err\(e\) => \{", "construction failure skips the zone")
    need(rel, src, r"if index\.filters\.is_empty\(\) \{\s*None", "no filter at all -> no index")
    rel = "src/shared/hash.rs"
    src = read(rel)
    need(rel, src, r"let mut hasher = FxHasher::default\(\);\s*value\.hash\(&mut hasher\);\s*hasher\.finish\(\)", "stable_hash64 = FxHasher")

    # ---- what the selector does with a pruner's None
    rel = "src/engine/core/zone/selector/field_selector.rs"
    src = read(rel)
    names = [("TemporalEq \\{ \\.\\. \\} \\| IndexStrategy::TemporalRange", "zidx_sel_temporal"),
             ("EnumBitmap", "zidx_sel_enum"), ("ZoneXorIndex", "zidx_sel_zxf"), ("XorPresence", "zidx_sel_xf")]
    code = {"empty": 0, "all": 1, "inflight": 2}
    for variant, coq in names:
        bypass, ops, k = arm_none_all(rel, src, variant)
        out.append(f"Definition {coq}_none : N := {code[k]}%N. (* 0 = no zones, 1 = all zones, 2 = all zones only while in flight *)")
        out.append(f"Definition {coq}_noneq_bypass : bool := {'true' if bypass else 'false'}. (* operator other than = : all zones, pruner not consulted *)")
        out.append(f"Definition {coq}_none_noneq_all : bool := {'true' if '*' in ops else 'false'}. (* pruner said None and the operator is not = : all zones *)")
        for o in ops:
            if o not in ("Neq", "In", "*"):
                raise Missing(f"{rel}: arm {variant}: None fallback for operator {o} is not modelled")
        out.append(f"Definition {coq}_none_neq_all : bool := {'true' if 'Neq' in ops else 'false'}. (* pruner said None and the operator is != : all zones *)")
        out.append(f"Definition {coq}_none_in_all : bool := {'true' if 'In' in ops else 'false'}.")
