"""Params plug-in for C14 (REMEMBER / SHOW): the rules of Model/Materialize.v that are single operators or
constants of the Rust text.  See tools/gen_params.py."""
import re
from gen_params import read, Missing


def gen(out):
    sink_rel = "src/engine/materialize/sink.rs"
    sel_rel = "src/engine/core/zone/selector/index_selector.rs"
    pr_rel = "src/engine/core/zone/selector/pruner/materialization_pruner.rs"
    wm_rel = "src/command/handlers/show/delta/watermark.rs"
    orch_rel = "src/command/handlers/show/orchestrator.rs"
    scan_rel = "src/engine/query/streaming/scan.rs"
    enc_rel = "src/engine/materialize/store/codec/encoder.rs"
    wr_rel = "src/engine/materialize/store/frame/writer.rs"
    sink, sel, pr, wm, orch, scan, enc, wr = (read(r) for r in (sink_rel, sel_rel, pr_rel, wm_rel, orch_rel, scan_rel, enc_rel, wr_rel))

    # which mark a sink carries after an append / after re-opening: the last frame's, or the maximum
    sink = re.sub(r"//[^\n]*", "", sink)
    m = re.search(r"pub fn append\(.*?\.append_batch\(.*?\)\?;(.*?)let rows_added", sink, re.S)
    if not m:
        raise Missing(f"{sink_rel}: MaterializedSink::append")
    stmt = m.group(1).strip()
    if re.fullmatch(r"self\.high_water\s*=\s*meta\.high_water_mark\s*;", stmt):
        append_last = True
    elif re.fullmatch(r"self\.high_water\s*\.advance\(\s*meta\.high_water_mark\.timestamp,\s*meta\.high_water_mark\.event_id,?\s*\)\s*;", stmt):
        append_last = False
    else:
        raise Missing(f"{sink_rel}: how append updates high_water ({stmt!r})")
    b = re.search(r"fn bootstrap_from_manifest\(&mut self\)\s*\{(.*?)self\.recompute_totals", sink, re.S)
    if not b:
        raise Missing(f"{sink_rel}: bootstrap_from_manifest")
    if re.search(r"frames\(\)\.last\(\)", b.group(1)) and "self.high_water = last.high_water_mark" in b.group(1):
        boot_last = True
    elif "advance(" in b.group(1):
        boot_last = False
    else:
        raise Missing(f"{sink_rel}: how bootstrap_from_manifest sets high_water")
    if append_last != boot_last:
        raise Missing(f"{sink_rel}: append and bootstrap_from_manifest use different mark rules")
    out.append(f"Definition mat_sink_mark_last : bool := {'true' if append_last else 'false'}.")

    # the mark of a frame: two independent column maxima (encoder) paired by the frame writer
    if not (re.search(r'position\(\|c\|\s*c\.name\s*==\s*"timestamp"\)', enc) and re.search(r'position\(\|c\|\s*c\.name\s*==\s*"event_id"\)', enc)
            and "max_timestamp = max_timestamp.max(ts)" in enc and "max_event_id = max_event_id.max(eid)" in enc):
        raise Missing(f"{enc_rel}: max_timestamp / max_event_id over the columns named timestamp / event_id")
    if "HighWaterMark::new(frame.max_timestamp, frame.max_event_id)" not in wr:
        raise Missing(f"{wr_rel}: high_water_mark = (max_timestamp, max_event_id)")

    # file_definitely_stale: duration.as_secs() < cutoff.saturating_sub(K)
    m = re.search(r"fn file_definitely_stale.*?return\s+duration\.as_secs\(\)\s*(<=|<)\s*cutoff\.saturating_sub\((\d+)\)", sel, re.S)
    if not m:
        raise Missing(f"{sel_rel}: file_definitely_stale comparison")
    out.append(f"Definition mat_stale_cmp (mtime bound : N) : bool := ({'N.ltb' if m.group(1) == '<' else 'N.leb'} mtime bound).")
    out.append(f"Definition mat_stale_slack : N := {int(m.group(2))}%N.")
    if "self.high_water_ts.unwrap_or(self.created_at)" not in sel:
        raise Missing(f"{sel_rel}: cutoff = high_water_ts.unwrap_or(created_at)")
    # the high-water timestamp is always part of the metadata (the created_at comparison is dead)
    if not re.search(r'"materialization_high_water_ts"\.to_string\(\),\s*initial_high_water\.timestamp\.to_string\(\)', orch):
        raise Missing(f"{orch_rel}: materialization_high_water_ts metadata")

    # zone pruning: meta.timestamp_max < high_water (pruner and the segment-level shortcut must agree)
    m1 = re.search(r"if let Some\(high_water\) = self\.high_water_timestamp \{\s*meta\.timestamp_max\s*(<=|<)\s*high_water", pr)
    m2 = re.search(r"metas\.iter\(\)\.all\(\|meta\|\s*meta\.timestamp_max\s*(<=|<)\s*high_water\)", sel)
    if not m1 or not m2:
        raise Missing(f"{pr_rel} / {sel_rel}: zone timestamp_max comparison")
    if m1.group(1) != m2.group(1):
        raise Missing("materialization pruner and segment_fully_materialized compare differently")
    out.append(f"Definition mat_zone_drop (tsmax hw : N) : bool := ({'N.ltb' if m1.group(1) == '<' else 'N.leb'} tsmax hw).")

    # the watermark filter: (ts, event) > (initial.timestamp, initial.event_id)
    m = re.search(r"\(ts,\s*event\)\s*(>=|>)\s*\(initial_watermark\.timestamp,\s*initial_watermark\.event_id\)", wm)
    if not m:
        raise Missing(f"{wm_rel}: the comparison of WatermarkDeduplicator::filter")
    out.append(f"Definition mat_wm_strict : bool := {'true' if m.group(1) == '>' else 'false'}.")

    # SHOW hands no LIMIT / OFFSET to its response writer
    m = re.search(r"delta_refresher\.has_watermark_filtering\(\),\s*(\w+),\s*(\w+),\s*\)", orch)
    if not m:
        raise Missing(f"{orch_rel}: ShowResponseWriter::new arguments")
    out.append(f"Definition mat_show_applies_limit : bool := {'false' if m.group(1) == 'None' and m.group(2) == 'None' else 'true'}.")

    # which mark the next SHOW uses, and when the catalog entry is rewritten (two-step persistence of SHOW)
    ref_rel = "src/command/handlers/show/delta/refresher.rs"
    fs_rel = "src/command/handlers/show/store/frame_streamer.rs"
    ref, fst = read(ref_rel), read(fs_rel)
    m = re.search(r"let initial_high_water\s*=\s*([^;]+);", ref)
    if not m:
        raise Missing(f"{ref_rel}: initial_high_water")
    src = m.group(1).strip()
    if src == "sink.high_water_mark()":
        from_store = True
    elif src.startswith("entry.high_water_mark"):
        from_store = False
    else:
        raise Missing(f"{ref_rel}: initial_high_water = {src}")
    if not re.search(r"WatermarkDeduplicator::new\(\s*initial_high_water,", ref):
        raise Missing(f"{ref_rel}: the watermark filter is not built from initial_high_water")
    if "let initial_high_water = delta_refresher.initial_high_water();" not in orch:
        raise Missing(f"{orch_rel}: guard timestamp is not the refresher's initial mark")
    out.append(f"Definition mat_delta_mark_from_store : bool := {'true' if from_store else 'false'}.")
    m = re.search(r"\.delta_command\(([^)]*)\)", orch)
    if not m:
        raise Missing(f"{orch_rel}: delta_command argument")
    arg = m.group(1).strip()
    if arg == "entry.high_water_mark":
        since_cat = True
    elif "initial_high_water" in arg or "sink" in arg:
        since_cat = False
    else:
        raise Missing(f"{orch_rel}: delta_command({arg})")
    out.append(f"Definition mat_delta_since_from_catalog : bool := {'true' if since_cat else 'false'}.")
    i_write, i_persist = orch.find("response_writer.write(stream).await?"), orch.find("self.persist_outcome(&mut catalog_handle, outcome)?")
    if i_write < 0 or i_persist < 0:
        raise Missing(f"{orch_rel}: response_writer.write(stream).await? / persist_outcome")
    out.append(f"Definition mat_catalog_after_response : bool := {'true' if i_write < i_persist else 'false'}.")
    if "let frames = store.frames().to_vec();" not in fst:
        raise Missing(f"{fs_rel}: the stored frames are not the store's manifest frames")
    refz = re.sub(r"\s+", " ", ref)
    if not re.search(r"sink\.lock\(\)\.await\.append\(batch\.as_ref\(\)\).*?sender\.send\(batch\)\.await", refz):
        raise Missing(f"{ref_rel}: append-then-send in the delta task")

    # one batch per flow up to this many rows (the model delivers one batch per source)
    m = re.search(r"const\s+STREAMING_BATCH_SIZE\s*:\s*usize\s*=\s*([0-9_]+)\s*;", scan)
    if not m:
        raise Missing(f"{scan_rel}: STREAMING_BATCH_SIZE")
    out.append(f"Definition mat_stream_batch_rows : N := {int(m.group(1).replace('_', ''))}%N.")
