"""Params plug-in for C06 (schema types and STORE validation): see tools/gen_params.py.

Reads from the Rust text
  * the alias table of FieldType::from_primitive_str (every string of every match arm),
  * the predicate each arm of store.rs type_allows_value applies to the JSON value,
and checks (raising Missing when the text is gone) the structure the Coq model
copies by hand: from_spec_with_nullable, the unknown-type default of
From<CommandMiniSchema>, the order of the checks in store::handle, validate_payload,
PayloadTimeNormalizer::normalize and SchemaRegistry::define_async."""
import re
from gen_params import read, Missing

TYPE_CODES = {"String": 0, "U64": 1, "I64": 2, "F64": 3, "Bool": 4, "Timestamp": 5, "Date": 6}
PRED_CODES = {
    "v.is_string()": 0,
    "v.as_u64().is_some()": 1,
    "v.as_i64().is_some()": 2,
    "v.as_f64().is_some()": 3,
    "v.is_boolean()": 4,
    "v.is_string() || v.is_number()": 5,
    "v.is_number()": 6,
    "v.is_null()": 7,
}


def coq_bytes(s):
    r = "nil"
    for b in reversed(s.encode("utf-8")):
        r = f"(cons {b}%N {r})"
    return r


def ordered(src, rel, snippets):
    pos = -1
    for s in snippets:
        p = src.find(s, pos + 1)
        if p < 0:
            raise Missing(f"{rel}: expected `{s}` (in this order: {snippets})")
        pos = p


def gen(out):
    # ---- alias table
    rel = "src/engine/schema/types.rs"
    src = read(rel)
    m = re.search(r"pub fn from_primitive_str\(s: &str\) -> Option<Self> \{\s*match s\.to_ascii_lowercase\(\)\.as_str\(\) \{(.*?)\n\s*_ => None,", src, re.S)
    if not m:
        raise Missing(f"{rel}: from_primitive_str match on s.to_ascii_lowercase()")
    body = re.sub(r"//[^\n]*", "", m.group(1))
    arms = re.findall(r'((?:"[^"]*"\s*\|?\s*)+)=>\s*Some\(FieldType::(\w+)\)', body)
    if not arms:
        raise Missing(f"{rel}: no alias arms found")
    entries = []
    seen_types = set()
    for names, ty in arms:
        if ty not in TYPE_CODES:
            raise Missing(f"{rel}: unknown FieldType::{ty} in from_primitive_str")
        seen_types.add(ty)
        for nm in re.findall(r'"([^"]*)"', names):
            if nm != nm.lower():
                raise Missing(f"{rel}: alias {nm!r} is not lower case (never matches the lower-cased input)")
            entries.append((nm, TYPE_CODES[ty]))
    if seen_types != set(TYPE_CODES):
        raise Missing(f"{rel}: from_primitive_str does not cover {sorted(set(TYPE_CODES) - seen_types)}")
    lst = "nil"
    for nm, code in reversed(entries):
        lst = f"(cons (pair {coq_bytes(nm)} {code}%N)\n   {lst})"
    out.append("(* (alias, type code): 0 String 1 U64 2 I64 3 F64 4 Bool 5 Timestamp 6 Date *)")
    out.append(f"Definition schema_alias_table : list (list N * N) :=\n  {lst}.")
    ordered(src, rel, ["pub fn from_spec_with_nullable(s: &str) -> Option<Self>", "if s.contains('|')",
                       "s.split('|').map(|t| t.trim().to_string())",
                       'parts.iter().any(|p| p.eq_ignore_ascii_case("null"))',
                       '.find(|p| !p.eq_ignore_ascii_case("null"))',
                       "FieldType::from_primitive_str(&nn)", "if has_null",
                       "Some(FieldType::Optional(Box::new(base)))", "Some(base)", "None",
                       "FieldType::from_primitive_str(s)"])
    # ---- unknown type names default to String; enums taken as given
    rel = "src/engine/schema/registry.rs"
    src = read(rel)
    ordered(src, rel, ["impl From<CommandMiniSchema> for MiniSchema", "FieldSpec::Primitive(s)",
                       "FieldType::from_spec_with_nullable(&s)", "fields.insert(name, ft);",
                       "fields.insert(name, FieldType::String);", "FieldSpec::Enum(variants)",
                       "fields.insert(name, FieldType::Enum(et));"])
    m = re.search(r"pub async fn define_async\(.*?\n    \}\n", src, re.S)
    if not m:
        raise Missing(f"{rel}: define_async")
    ordered(m.group(0), rel, ["if self.schemas.contains_key(event_type)", "SchemaError::AlreadyDefined",
                              "if schema.fields.is_empty()", "SchemaError::EmptySchema",
                              "store.append(&record_clone)", "self.register_record(record);"])
    # ---- type_allows_value
    rel = "src/command/handlers/store.rs"
    src = read(rel)
    m = re.search(r"fn type_allows_value\(ft: &FieldType, v: &serde_json::Value\) -> bool \{\s*match ft \{(.*?)\n    \}\n\}", src, re.S)
    if not m:
        raise Missing(f"{rel}: type_allows_value")
    body = re.sub(r"//[^\n]*", "", m.group(1))
    preds = {}
    for pat, expr in re.findall(r"((?:FieldType::\w+\s*\|?\s*)+)=>\s*([^,\n]+),", body):
        for ty in re.findall(r"FieldType::(\w+)", pat):
            preds[ty] = expr.strip()
    for ty in TYPE_CODES:
        if ty not in preds:
            raise Missing(f"{rel}: type_allows_value has no plain arm for FieldType::{ty}")
        if preds[ty] not in PRED_CODES:
            raise Missing(f"{rel}: type_allows_value arm for {ty} is `{preds[ty]}`, not a predicate the model knows")
    out.append("(* predicate of type_allows_value per primitive: 0 is_string 1 as_u64.is_some 2 as_i64.is_some")
    out.append("   3 as_f64.is_some 4 is_boolean 5 is_string||is_number 6 is_number 7 is_null *)")
    for ty, code in TYPE_CODES.items():
        out.append(f"Definition tav_{ty.lower()} : N := {PRED_CODES[preds[ty]]}%N.")
    if not re.search(r"FieldType::Optional\(inner\) => v\.is_null\(\) \|\| type_allows_value\(inner, v\),", body):
        raise Missing(f"{rel}: Optional arm of type_allows_value")
    if not re.search(r"FieldType::Enum\(enum_ty\) => v\s*\.as_str\(\)\s*\.map\(\|s\| enum_ty\.variants\.iter\(\)\.any\(\|vv\| vv == s\)\)\s*\.unwrap_or\(false\),", body):
        raise Missing(f"{rel}: Enum arm of type_allows_value")
    # ---- validate_payload and the order of checks in handle
    m = re.search(r"fn validate_payload\(.*?\n\}\n", src, re.S)
    if not m:
        raise Missing(f"{rel}: validate_payload")
    ordered(m.group(0), rel, [".as_object()", "Payload must be a JSON object", "for (field, field_type) in &schema.fields",
                              "match obj.get(field)", "if !type_allows_value(field_type, value)",
                              "if !matches!(field_type, FieldType::Optional(_))", "Missing field",
                              "actual_keys.difference(&allowed_keys)", "if !extra_keys.is_empty()", "Ok(())"])
    m = re.search(r"pub async fn handle<.*?\n\}\n", src, re.S)
    if not m:
        raise Missing(f"{rel}: handle")
    ordered(m.group(0), rel, ["if event_type.trim().is_empty()", "event_type cannot be empty",
                              "if context_id.trim().is_empty()", "context_id cannot be empty",
                              "schema_read.get(event_type)", "No schema defined for event type",
                              "validate_payload(payload, mini_schema)", "StatusCode::BadRequest",
                              "time_normalizer.normalize(&mut normalized_payload)", "StatusCode::BadRequest",
                              "event.set_payload_json(normalized_payload);", "shard_manager.get_shard(context_id)",
                              "shard.tx.send(ShardMessage::Store(event, registry_clone))", "Event accepted for storage"])
    # ---- the time normaliser walks the schema one Optional level deep and skips null
    rel = "src/engine/schema/normalization.rs"
    src = read(rel)
    ordered(src, rel, ["for (field, field_type) in &self.schema.fields", "FieldType::Timestamp =>",
                       "TimeParser::normalize_json_value(v, TimeKind::DateTime)?", "FieldType::Date =>",
                       "TimeParser::normalize_json_value(v, TimeKind::Date)?", "FieldType::Optional(inner) =>",
                       "matches!(**inner, FieldType::Timestamp | FieldType::Date)", "if !v.is_null()",
                       "TimeParser::normalize_json_value(v, kind)?", "_ => {}"])
    rel = "src/shared/time.rs"
    src = read(rel)
    ordered(src, rel, ["pub fn normalize_json_value(", "serde_json::Value::Number(n) =>", "if let Some(i) = n.as_i64()",
                       "Self::normalize_integer_epoch(i as i128)", "else if let Some(u) = n.as_u64()",
                       "Self::normalize_integer_epoch(u as i128)", "else if let Some(f) = n.as_f64()",
                       "let secs = f.floor() as i64;", "serde_json::Value::String(s) =>",
                       "Self::parse_str_to_epoch_seconds(s, kind)", "Time field must be a number or string"])
    # ---- float seconds: floored; is the value range-checked before the saturating cast?
    m = re.search(r"else if let Some\(f\) = n\.as_f64\(\) \{(.*?)let secs = f\.floor\(\) as i64;", src, re.S)
    if not m:
        raise Missing(f"{rel}: float branch of normalize_json_value")
    guard = re.sub(r"//[^\n]*", "", m.group(1)).strip()
    if guard == "":
        checked = False
    elif re.fullmatch(r"if !\(f >= -9_223_372_036_854_775_808\.0 && f < 9_223_372_036_854_775_808\.0\) \{\s*return Err\(.*?\);\s*\}", guard, re.S):
        checked = True
    else:
        raise Missing(f"{rel}: unrecognised code before `let secs = f.floor() as i64;`: {guard!r}")
    out.append("(* true when a float time outside [-2^63, 2^63) is rejected instead of saturating *)")
    out.append(f"Definition time_float_range_checked : bool := {'true' if checked else 'false'}.")
    # ---- the STORE text path: tokenizer pre-validation and brace matching
    rel = "src/command/parser/commands/store.rs"
    src = read(rel)
    ordered(src, rel, ["rule balanced_braces()", "json:json_block()", "sonic_rs::from_str(json_str)"])
    if '"{" (balanced_braces() / (!"}" [_]))* "}"' in src:
        ignores = True
    elif ('"{" (balanced_braces() / json_string() / (!"}" [_]))* "}"' in src
          or '"{" (balanced_braces() / json_string() / (![\'{\' | \'}\'] [_]))* "}"' in src) and \
            'rule json_string() = "\\"" ("\\\\" [_] / (![\'"\' | \'\\\\\'] [_]))* "\\""' in src:
        # both spellings skip JSON string literals; the second (04c7300) additionally refuses to re-read an
        # unclosed nested '{' as a plain character, which changes no result (such a text has no closing
        # brace for the enclosing block either) and never concerns a text that is valid JSON
        ignores = False
    else:
        raise Missing(f"{rel}: unrecognised balanced_braces rule")
    out.append("(* true when the STORE grammar matches braces without looking at JSON string literals *)")
    out.append(f"Definition store_brace_scan_ignores_strings : bool := {'true' if ignores else 'false'}.")
    rel = "src/command/parser/tokenizer.rs"
    src = read(rel)
    m = re.search(r"((?:'[^']+'\s*\|\s*)*'[^']+')\s*=>\s*\{\s*tokens\.push\(Token::Symbol\(chars\.next\(\)\.unwrap\(\)\)\);", src)
    if not m:
        raise Missing(f"{rel}: Symbol arm of tokenize")
    syms = re.findall(r"'([^'])'", m.group(1))
    out.append("(* true when the tokenizer that pre-validates every command line rejects '+' outside a string literal *)")
    out.append(f"Definition tokenizer_rejects_plus : bool := {'false' if '+' in syms else 'true'}.")
    rel = "src/command/parser/command.rs"
    src = read(rel)
    ordered(src, rel, ["let tokens = tokenize(input);", "validate_tokens(&tokens)", 'cmd.eq_ignore_ascii_case("STORE")',
                       "commands::store::parse_peg(input)"])
