"""Params plug-in (C05, C11, C04): which labels seed the id allocator of the compaction planner.

compaction_ids_fresh_in_lifetime - KWayCountPolicy::plan seeds its RangeAllocator from
    remember_labels(index.path(), &index.all_labels()): the labels of this planning round plus every label an
    earlier planning round of this process saw for that index file (static SEEN_LABELS map), so an id retired
    earlier in the lifetime is not handed out again.  false: the allocator is seeded from index.all_labels()
    only (a retired label can be handed out again).  Anything else is Missing.  See tools/gen_params.py."""
import re
from gen_params import read, Missing


def fn_body(src, start):
    i, depth = start, 1
    while depth and i < len(src):
        depth += {"{": 1, "}": -1}.get(src[i], 0)
        i += 1
    return src[start:i - 1]


def gen(out):
    rel = "src/engine/core/compaction/policy.rs"
    src = re.sub(r"//[^\n]*", "", read(rel))
    m = re.search(r"impl CompactionPolicy for KWayCountPolicy \{\s*fn plan\(&self, index: &SegmentIndex\) -> Vec<MergePlan> \{", src)
    if not m:
        raise Missing(f"{rel}: KWayCountPolicy::plan")
    body = fn_body(src, m.end())
    seed = re.search(r"let existing_labels = ([^;]+);\s*let mut allocator =\s*RangeAllocator::from_existing_ids\(\s*existing_labels\.iter\(\)\.map\(\|s\| s\.as_str\(\)\)\s*\);", body)
    if not seed:
        raise Missing(f"{rel}: plan: `let existing_labels = ...; let mut allocator = RangeAllocator::from_existing_ids(existing_labels...)`")
    if len(re.findall(r"RangeAllocator::", body)) != 1:
        raise Missing(f"{rel}: plan builds more than one allocator")
    expr = re.sub(r"\s+", " ", seed.group(1).strip())
    if expr == "index.all_labels()":
        fresh = False
    elif expr == "remember_labels(index.path(), &index.all_labels())":
        # the helper must add the current labels to a process-wide per-index set and return the whole set
        st = re.search(r"static SEEN_LABELS: Lazy<Mutex<HashMap<PathBuf, HashSet<String>>>>\s*=\s*Lazy::new\(\|\| Mutex::new\(HashMap::new\(\)\)\);", src)
        h = re.search(r"fn remember_labels\(index_path: &Path, current: &\[String\]\) -> Vec<String> \{", src)
        if not st or not h:
            raise Missing(f"{rel}: SEEN_LABELS / remember_labels")
        hb = re.sub(r"\s+", " ", fn_body(src, h.end()).strip())
        want = ("let mut seen = SEEN_LABELS.lock().unwrap_or_else(|p| p.into_inner()); "
                "let entry = seen.entry(index_path.to_path_buf()).or_default(); "
                "entry.extend(current.iter().cloned()); "
                "entry.iter().cloned().collect()")
        if hb != want:
            raise Missing(f"{rel}: remember_labels has an unrecognised body: {hb!r}")
        # nothing else may touch the set (e.g. clear it)
        if len(re.findall(r"SEEN_LABELS", src)) != 2:
            raise Missing(f"{rel}: SEEN_LABELS is used outside remember_labels")
        fresh = True
    else:
        raise Missing(f"{rel}: plan seeds its allocator from an unrecognised expression: {expr!r}")
    out.append(f"Definition compaction_ids_fresh_in_lifetime : bool := {'true' if fresh else 'false'}.")
