"""Params plug-in (C17): do or_expr / and_expr of the WHERE and FILTER grammars parse their first operand once
(`x:and_expr() y:( _ ci("OR") _ y:or_expr() {y} )?`) or twice (`x:and_expr() _ ci("OR") _ y:or_expr() {..} / and_expr()`)?
The second form costs about 4^depth rule calls on nested parentheses (peg does not memoise).  See tools/gen_params.py."""
import re
from gen_params import read, Missing


def _form(src, rel, rule, sub, kw):
    m = re.search(r"rule\s+" + rule + r"\(\)\s*->\s*Expr\s*=(.*?)(?=\n\s*rule\s)", src, re.S)
    if not m:
        raise Missing(f"{rel}: rule {rule}")
    body = re.sub(r"\s+", "", re.sub(r"//[^\n]*", "", m.group(1)))
    once = re.match(r"x:" + sub + r"\(\)y:\(_ci\(\"" + kw + r"\"\)_y:" + rule + r"\(\)\{y\}\)\?\{", body)
    twice = re.match(r"x:" + sub + r"\(\)_ci\(\"" + kw + r"\"\)_y:" + rule + r"\(\)\{.*\}/" + sub + r"\(\)$", body)
    if bool(once) == bool(twice):
        raise Missing(f"{rel}: rule {rule} is in neither of the two modelled forms")
    return bool(twice)


def _factor(src, rel, leaves):
    m = re.search(r"rule\s+factor\(\)\s*->\s*Expr\s*=(.*?)(?=\n\s*rule\s)", src, re.S)
    if not m:
        raise Missing(f"{rel}: rule factor")
    body = re.sub(r"\s+", "", re.sub(r"//[^\n]*", "", m.group(1)))
    want = r'ci\("NOT"\)_\w+:factor\(\)\{Expr::Not\(Box::new\(\w+\)\)\}/"\("_e:(expr|expression)\(\)_"\)"\{e\}/' + "/".join(l + r"\(\)" for l in leaves) + "$"
    if not re.match(want, body):
        raise Missing(f"{rel}: rule factor is not `NOT factor / ( expr ) / {' / '.join(leaves)}`")
    e = re.search(r"rule\s+(?:expr|expression)\(\)\s*->\s*Expr\s*=\s*or_expr\(\)", src)
    if not e:
        raise Missing(f"{rel}: the expression rule is not or_expr()")


def gen(out):
    _factor(read("src/command/parser/commands/query.rs"), "src/command/parser/commands/query.rs", ["comparison", "in_expr", "atom"])
    _factor(read("src/command/parser/commands/plotql.rs"), "src/command/parser/commands/plotql.rs", ["comparison", "in_expr", "exists_expr"])
    forms = {}
    for rel in ("src/command/parser/commands/query.rs", "src/command/parser/commands/plotql.rs"):
        src = read(rel)
        forms[(rel, "or")] = _form(src, rel, "or_expr", "and_expr", "OR")
        forms[(rel, "and")] = _form(src, rel, "and_expr", "factor", "AND")
    out.append(f"Definition expr_grammar_reparses : bool := {'true' if any(forms.values()) else 'false'}.")
