"""Params plug-in for C10 (Model/Order.v): the handler rule and the places where LIMIT/OFFSET are applied."""
import re
from gen_params import read, Missing


def gen(out):
    rel = "src/command/handlers/query/handler.rs"
    src = re.sub(r"//[^\n]*", "", read(rel))
    m = re.search(r"if\s+offset\.is_some\(\)\s*&&\s*limit\.is_none\(\)\s*\{(.*?)\n\s*\}\n", src, re.S)
    if not m or "StatusCode::BadRequest" not in m.group(1) or "return" not in m.group(1):
        raise Missing(f"{rel}: `if offset.is_some() && limit.is_none()` returning BadRequest")
    out.append("Definition query_offset_requires_limit : bool := true.")
    # ordered queries: the writer gets no limit/offset (applied once by the merger); unordered: the command's
    if not re.search(r"order_by:\s*Some\(_\).*?\{\s*\(None,\s*None\)", src, re.S) or "(limit_value, offset_value)" not in src:
        raise Missing(f"{rel}: response limit selection (ordered -> (None, None), unordered -> (limit, offset))")
    rel = "src/engine/query/streaming/context.rs"
    src = re.sub(r"//[^\n]*", "", read(rel))
    if not re.search(r"plan\.limit\(\)\.map\(\|limit\|\s*limit\s*\+\s*plan\.offset\(\)\.unwrap_or\(0\)\)", src):
        raise Missing(f"{rel}: effective_limit = limit + offset")
    rel = "src/engine/query/streaming/merger.rs"
    src = re.sub(r"//[^\n]*", "", read(rel))
    if not re.search(r"ascending,\s*0,\s*ctx\.effective_limit\(\),", src):
        raise Missing(f"{rel}: shard-level OrderedStreamMerger::spawn(.., ascending, 0, ctx.effective_limit(), ..)")
    rel = "src/engine/core/read/flow/ordered_merger.rs"
    src = re.sub(r"//[^\n]*", "", read(rel))
    if not re.search(r"compare_scalar_values\(lhs,\s*rhs\)\.then_with\(\|\|\s*other\.shard_idx\.cmp\(&self\.shard_idx\)\)", src) \
            or not re.search(r"if\s+self\.ascending\s*\{\s*ord\.reverse\(\)\s*\}\s*else\s*\{\s*ord\s*\}", src):
        raise Missing(f"{rel}: HeapItem::cmp (key, then other.shard_idx.cmp(self.shard_idx), reversed when ascending)")
