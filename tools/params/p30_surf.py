"""Params plug-in for the succinct range filter (C08 part A): see tools/gen_params.py.

Read from the Rust text:
  * surf_encoding.rs: the sign-flip constant of encode_i64, the sign-bit shift of encode_f64,
    the i64-range / u64 fallback of the integral-float normalisation (both copies must be the
    same text), big-endian byte order of all three lanes;
  * range_pruner.rs: MATCH_THRESHOLD (as an exact fraction), MIN_ZONES_FOR_THRESHOLD and the two
    comparison operators of the ">90 % of >10 zones => None" rule;
  * zone_surf_filter.rs: sort + dedup of the per-zone keys, whether the field set of a zone comes from its first event only.
"""
import re
from fractions import Fraction
from gen_params import read, num, Missing


def need(src, rel, pat, what=None, flags=re.S):
    m = re.search(pat, src, flags)
    if not m:
        raise Missing(f"{rel}: {what or pat}")
    return m


def gen(out):
    rel = "src/engine/core/filter/surf_encoding.rs"
    src = read(rel)
    m = need(src, rel, r"pub fn encode_i64\(i: i64\) -> Vec<u8> \{\s*let ux = \(i as u64\) \^ (0x[0-9A-Fa-f_]+)u64;\s*ux\.to_be_bytes\(\)\.to_vec\(\)",
             "encode_i64: (i as u64) ^ <const>, to_be_bytes")
    out.append(f"Definition surf_i64_flip : N := {int(m.group(1).replace('_', ''), 16)}%N.")
    need(src, rel, r"pub fn encode_u64\(u: u64\) -> Vec<u8> \{\s*u\.to_be_bytes\(\)\.to_vec\(\)", "encode_u64: to_be_bytes")
    m = need(src, rel, r"pub fn encode_f64\(f: f64\) -> Vec<u8> \{\s*let bits = f\.to_bits\(\);\s*let lex = if \(bits & \(1u64 << (\d+)\)\) != 0 \{\s*!bits\s*\} else \{\s*bits \^ \(1u64 << (\d+)\)\s*\};\s*lex\.to_be_bytes\(\)\.to_vec\(\)",
             "encode_f64: sign test, !bits / bits ^ (1<<k), to_be_bytes")
    if m.group(1) != m.group(2):
        raise Missing(f"{rel}: encode_f64 uses two different shifts")
    out.append(f"Definition surf_f64_sign_shift : N := {int(m.group(1))}%N.")
    # the integral-float normalisation appears twice (Utf8 arm and Float64 arm): same text modulo the deref
    norm = (r"if f\.is_finite\(\) \{\s*let t = f\.trunc\(\);\s*if \(f - t\)\.abs\(\) == 0\.0 \{"
            r"(?:\s*//[^\n]*)*\s*if t >= \(i64::MIN as f64\) && t <= \(i64::MAX as f64\) \{\s*return Some\(encode_i64\(t as i64\)\);\s*\}"
            r"(?:\s*//[^\n]*)*\s*if t >= 0\.0 \{\s*let u = t as u64;\s*return Some\(encode_u64\(u\)\);\s*\}\s*\}\s*\}\s*Some\(encode_f64\(\*?f\)\)")
    n = len(re.findall(norm, src, re.S))
    if n != 2:
        raise Missing(f"{rel}: integral-float normalisation expected twice (Utf8 and Float64 arms), found {n}")
    need(src, rel, r"if let Ok\(i\) = s\.parse::<i64>\(\) \{\s*Some\(encode_i64\(i\)\)\s*\} else if let Ok\(u\) = s\.parse::<u64>\(\) \{\s*Some\(encode_u64\(u\)\)\s*\} else if let Ok\(f\) = s\.parse::<f64>\(\)",
         "Utf8 arm: parse i64, then u64, then f64")
    need(src, rel, r"ScalarValue::Int64\(i\) => Some\(encode_i64\(\*i\)\),\s*ScalarValue::Timestamp\(ts\) => Some\(encode_i64\(\*ts\)\),", "Int64/Timestamp arms")
    need(src, rel, r"ScalarValue::Boolean\(b\) => Some\(if \*b \{ vec!\[1u8\] \} else \{ vec!\[0u8\] \}\),\s*_ => None,", "Boolean arm and default None")

    rel = "src/engine/core/zone/selector/pruner/range_pruner.rs"
    src = read(rel)
    m = need(src, rel, r"const MATCH_THRESHOLD: f64 = ([0-9.]+);", "MATCH_THRESHOLD")
    fr = Fraction(m.group(1))
    out.append(f"Definition surf_thr_num : N := {fr.numerator}%N.")
    out.append(f"Definition surf_thr_den : N := {fr.denominator}%N.")
    m = need(src, rel, r"const MIN_ZONES_FOR_THRESHOLD: usize = ([0-9_]+);", "MIN_ZONES_FOR_THRESHOLD")
    out.append(f"Definition surf_min_zones : N := {num(m.group(1))}%N.")
    need(src, rel, r"if zones_total > MIN_ZONES_FOR_THRESHOLD\s*&& zones\.len\(\) as f64 >= zones_total as f64 \* MATCH_THRESHOLD\s*\{", "threshold test (>, >=)")
    need(src, rel, r"CompareOp::Gt => zsf\.zones_overlapping_ge\(bytes, false, args\.segment_id\),\s*CompareOp::Gte => zsf\.zones_overlapping_ge\(bytes, true, args\.segment_id\),\s*"
                   r"CompareOp::Lt => zsf\.zones_overlapping_le\(bytes, false, args\.segment_id\),\s*CompareOp::Lte => zsf\.zones_overlapping_le\(bytes, true, args\.segment_id\),",
         "operator dispatch Gt/Gte/Lt/Lte")
    need(src, rel, r"if zones_total == 0 \{", "empty filter => None")

    rel = "src/engine/core/filter/zone_surf_filter.rs"
    src = read(rel)
    need(src, rel, r"values\.sort\(\);\s*values\.dedup\(\);\s*let trie = SurfTrie::build_from_sorted\(&values\);", "sort + dedup + build per zone")
    # which events of a zone contribute the field set: only the first (pinned tree) or all of them
    first = re.search(r"if let Some\(event\) = zp\.events\.get\(0\) \{\s*dynamic_keys\.extend\(event\.payload\.keys\(\)\.cloned\(\)\);", src)
    every = re.search(r"for event in (?:&zp\.events|zp\.events\.iter\(\)) \{\s*dynamic_keys\.extend\(event\.payload\.keys\(\)\.cloned\(\)\);", src)
    if bool(first) == bool(every):
        raise Missing(f"{rel}: dynamic_keys taken from the first event or from every event of the zone")
    out.append(f"Definition surf_keys_from_first_event : bool := {'true' if first else 'false'}.")
    need(src, rel, r"for key in dynamic_keys \{\s*if !allowed_fields\.contains\(&key\) \{\s*continue;\s*\}\s*if !is_field_numeric_consistent\(zone_plans, &key\) \{\s*continue;\s*\}", "per key: allowed, then numeric-consistency gate")
    need(src, rel, r"entries\.sort_by_key\(\|e\| e\.zone_id\);", "entries sorted by zone id")
    need(src, rel, r"Some\(k\) if k\.as_slice\(\) > lower => \(true, stats\)", "exclusive lower bound test")
    need(src, rel, r"Some\(k\) if k\.as_slice\(\) < upper => \(true, stats\)", "exclusive upper bound test")
