"""Params plug-in: see tools/gen_params.py."""
import re
from gen_params import read, const, num, Missing


def gen(out):
    rel = "src/shared/time.rs"
    src = read(rel)
    m = re.search(r"fn normalize_integer_epoch.*?let secs = match digits \{(.*?)\};", src, re.S)
    if not m:
        raise Missing(f"{rel}: normalize_integer_epoch match")
    body = re.sub(r"//[^\n]*", "", m.group(1))
    arms = re.findall(r"(\d+)\s*\.\.=\s*(\d+)\s*=>\s*([^,]+),", body)
    if len(arms) != 4 or "_ => return None" not in body:
        raise Missing(f"{rel}: expected four digit bands and a rejecting default, got {arms}")
    names = ["s", "ms", "us", "ns"]
    lo_expected = 0
    ops = set()
    for (lo, hi, expr), nm in zip(arms, names):
        lo, hi = int(lo), int(hi)
        if lo != lo_expected:
            raise Missing(f"{rel}: digit bands not contiguous at {lo}")
        lo_expected = hi + 1
        out.append(f"Definition time_band_{nm}_hi : N := {hi}%N.")
        expr = expr.strip()
        if nm == "s":
            if expr != "n":
                raise Missing(f"{rel}: seconds band should be the identity, found {expr!r}")
            continue
        m1 = re.fullmatch(r"n\s*/\s*([0-9_]+)", expr)
        m2 = re.fullmatch(r"n\.div_euclid\(\s*([0-9_]+)\s*\)", expr)
        m3 = re.fullmatch(r"n\.div_floor\(\s*([0-9_]+)\s*\)", expr)
        if m1:
            ops.add("Z.quot"); d = num(m1.group(1))
        elif m2 or m3:
            ops.add("Z.div"); d = num((m2 or m3).group(1))
        else:
            raise Missing(f"{rel}: unrecognised band expression {expr!r}")
        out.append(f"Definition time_div_{nm} : Z := {d}%Z.")
    if len(ops) != 1:
        raise Missing(f"{rel}: bands use different division operators {ops}")
    out.append(f"Definition time_div : Z -> Z -> Z := {ops.pop()}.")
    if "i64::try_from(secs).ok()" not in src:
        raise Missing(f"{rel}: i64::try_from(secs).ok()")
    # float seconds are floored; is the value range-checked before the (saturating) cast?
    m = re.search(r"else if let Some\(f\) = n\.as_f64\(\) \{(.*?)let secs = f\.floor\(\) as i64;", src, re.S)
    if not m:
        raise Missing(f"{rel}: f.floor() as i64 in the float branch of normalize_json_value")
    guard = re.sub(r"//[^\n]*", "", m.group(1)).strip()
    if guard == "":
        checked = False
    elif re.fullmatch(r"if !\(f >= -9_223_372_036_854_775_808\.0 && f < 9_223_372_036_854_775_808\.0\) \{\s*return Err\(.*?\);\s*\}", guard, re.S):
        checked = True
    else:
        raise Missing(f"{rel}: unrecognised code before `let secs = f.floor() as i64;`: {guard!r}")
    out.append(f"Definition time_float_checks_i64_range : bool := {'true' if checked else 'false'}.")
