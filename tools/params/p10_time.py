"""Params plug-in: see tools/gen_params.py."""
import re
from gen_params import read, const, num, Missing


def gen(out):
    rel = "src/shared/time.rs"
    src = read(rel)
    m = re.search(r"fn normalize_integer_epoch.*?let secs = match digits \{(.*?)\};", src, re.S)
    if not m:
        raise Missing(f"{rel}: normalize_integer_epoch match")
    body = re.sub(r"//[^\n]*", "", m.group(1))
    arms = re.findall(r"(\d+)\s*\.\.=\s*(\d+)\s*=>\s*([^,]+),", body)
    if len(arms) != 4 or "_ => return None" not in body:
        raise Missing(f"{rel}: expected four digit bands and a rejecting default, got {arms}")
    names = ["s", "ms", "us", "ns"]
    lo_expected = 0
    ops = set()
    for (lo, hi, expr), nm in zip(arms, names):
        lo, hi = int(lo), int(hi)
        if lo != lo_expected:
            raise Missing(f"{rel}: digit bands not contiguous at {lo}")
        lo_expected = hi + 1
        out.append(f"Definition time_band_{nm}_hi : N := {hi}%N.")
        expr = expr.strip()
        if nm == "s":
            if expr != "n":
                raise Missing(f"{rel}: seconds band should be the identity, found {expr!r}")
            continue
        m1 = re.fullmatch(r"n\s*/\s*([0-9_]+)", expr)
        m2 = re.fullmatch(r"n\.div_euclid\(\s*([0-9_]+)\s*\)", expr)
        m3 = re.fullmatch(r"n\.div_floor\(\s*([0-9_]+)\s*\)", expr)
        if m1:
            ops.add("Z.quot"); d = num(m1.group(1))
        elif m2 or m3:
            ops.add("Z.div"); d = num((m2 or m3).group(1))
        else:
            raise Missing(f"{rel}: unrecognised band expression {expr!r}")
        out.append(f"Definition time_div_{nm} : Z := {d}%Z.")
    if len(ops) != 1:
        raise Missing(f"{rel}: bands use different division operators {ops}")
    out.append(f"Definition time_div : Z -> Z -> Z := {ops.pop()}.")
    if "i64::try_from(secs).ok()" not in src:
        raise Missing(f"{rel}: i64::try_from(secs).ok()")
    # float seconds are floored
    if "f.floor() as i64" not in src:
        raise Missing(f"{rel}: f.floor() as i64")
