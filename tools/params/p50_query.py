"""Params plug-in for C02 (query path): the branches of the Rust text that decide the known
findings are read here, so that Model/{Cond,Prune,Layout}.v follow the *current* source and the
closed witnesses in Proofs/QueryProofs.v re-check (or break) when one of them is repaired.
See tools/gen_params.py."""
import re
from gen_params import read, Missing


def between(src, rel, start, end):
    i = src.find(start)
    if i < 0:
        raise Missing(f"{rel}: {start!r}")
    j = src.find(end, i + len(start))
    if j < 0:
        raise Missing(f"{rel}: {end!r} after {start!r}")
    return src[i:j]


def gen(out):
    b = lambda v: "true" if v else "false"

    # NOT over a leaf: complement of the leaf's zones, or all zones of the type
    rel = "src/engine/core/zone/zone_group_collector.rs"
    s = read(rel)
    arm = between(s, rel, "fn handle_not", "FilterGroup::And(children)")
    if re.search(r"let matching_zones = self\.collect_zones_from_group\(child\);\s*self\.compute_complement\(&matching_zones\)", arm):
        comp = True
    elif re.search(r"self\.compute_complement\(&\[\]\)|get_all_zones_for_segments", arm):
        comp = False
    else:
        raise Missing(f"{rel}: handle_not, arm for a single filter")
    out.append(f"Definition query_not_leaf_complement : bool := {b(comp)}.")

    # the "negative threshold" shortcut of a numeric condition on a u64 column
    rel1, rel2 = "src/engine/core/filter/condition_evaluator.rs", "src/engine/core/filter/condition.rs"
    s1, s2 = read(rel1), read(rel2)
    blk = between(s1, rel1, "if condition.value() < 0 {", "let cmp_val = condition.value() as u64;")
    simd_all = "match condition.op()" not in blk
    if simd_all and not re.search(r"for m in mask\.iter_mut\(\) \{\s*\*m = false;", blk):
        raise Missing(f"{rel1}: evaluate_numeric_simd, negative-threshold branch")
    blk2 = between(s2, rel2, "let rhs = if self.value < 0 {", "self.value as u64")
    if re.search(r"return false;", blk2):
        at_all = True
    elif "matches!" in blk2:
        at_all = False
    else:
        raise Missing(f"{rel2}: NumericCondition::evaluate_at, negative-threshold branch")
    if simd_all != at_all:
        raise Missing("the negative-threshold shortcut differs between evaluate_numeric_simd and evaluate_at; the model has one switch")
    out.append(f"Definition query_u64_neg_rejects_all : bool := {b(simd_all)}.")

    # a column without any i64 value still claims the i64 fast path (f64 blocks are never compared)
    f = between(s2, rel2, "pub fn get_i64_buffer_with_validity", "pub fn get_u64_buffer_with_validity")
    out.append(f"Definition query_i64_buffer_claims_all : bool := {b('any_valid' not in f)}.")

    # in memory: a numeric condition on a Float64 payload cell
    f = between(s2, rel2, "impl Condition for NumericCondition", "impl Condition for StringCondition")
    ev = between(f, rel2, "fn evaluate_event_direct", "fn is_numeric")
    out.append(f"Definition query_mem_f64_view : bool := {b('as_f64' in ev)}.")

    # an operator the index does not serve (`!=`; for the enum bitmap also an unknown variant):
    # no zones, or all zones of the type.  An index that cannot be loaded keeps meaning "no zones".
    rel = "src/engine/core/zone/selector/field_selector.rs"
    s = read(rel)
    arms = [("temporal", "IndexStrategy::TemporalEq", "IndexStrategy::EnumBitmap", r"CompareOp::Neq"),
            ("enum", "IndexStrategy::EnumBitmap", "IndexStrategy::ZoneSuRF",
             r"CompareOp::Neq|!matches!\(\s*operation,\s*Some\(CompareOp::Eq\)\)"),   # 01eee7e: every operator but = falls back
            ("zonexor", "IndexStrategy::ZoneXorIndex", "IndexStrategy::XorPresence", r"!matches!\(\s*operation,\s*Some\(CompareOp::Eq\)\)")]
    for name, a, z, guard in arms:
        arm = between(s, rel, a + " {", z + " {")
        if "return Vec::new()" not in arm:
            raise Missing(f"{rel}: the {name} arm no longer answers 'no zones' when its pruner answers None")
        out.append(f"Definition query_unserved_no_zones_{name} : bool := {b(re.search(guard, arm) is None)}.")
    surf = between(s, rel, "IndexStrategy::ZoneSuRF {", "IndexStrategy::ZoneXorIndex {")
    if "return Vec::new()" in surf or "create_all_zones_for_segment_from_meta_cached" not in surf:
        raise Missing(f"{rel}: the ZoneSuRF arm no longer falls back to all zones")

    # hydration of a candidate list that mixes uid-carrying and bare zones
    rel = "src/engine/core/zone/zone_hydrator.rs"
    s = read(rel)
    pre = between(s, rel, "pub async fn hydrate", "let mut zones_by_uid")
    out.append(f"Definition query_hydrate_tagged_only : bool := {b('set_uid' not in pre)}.")

    # string view of a typed Bool block
    rel = "src/engine/core/column/column_values.rs"
    s = read(rel)
    g = between(s, rel, "pub fn get_str_at(&self", "pub fn validate_utf8")
    out.append(f"Definition query_bool_block_str_view : bool := {b('typed_bool' in g)}.")
