"""Params plug-in for Model/TimeSites.v (C16 call sites): the shapes of the temporal builder / calendar /
pruner code the model depends on, read from the Rust text.  See tools/gen_params.py."""
import re
from gen_params import read, num, Missing


def gen(out):
    # --- bucket sizes (naive_bucket_of) and the u32 truncation of bucket ids
    rel = "src/shared/datetime/time_bucketing.rs"
    src = read(rel)
    m = re.search(r"pub fn naive_bucket_of\(.*?\{(.*?)\n\}", src, re.S)
    if not m:
        raise Missing(f"{rel}: naive_bucket_of")
    body = m.group(1)
    for nm, gran in (("hour", "Hour"), ("day", "Day")):
        mm = re.search(r"TimeGranularity::" + gran + r"\s*=>\s*\(ts\s*/\s*([0-9_]+)\)\s*\*\s*([0-9_]+)", body)
        if not mm or num(mm.group(1)) != num(mm.group(2)):
            raise Missing(f"{rel}: naive_bucket_of arm {gran}")
        out.append(f"Definition tsite_bucket_{nm} : Z := {num(mm.group(1))}%Z.")
    rel = "src/engine/core/time/temporal_calendar_index.rs"
    src = read(rel)
    if not re.search(r"fn bucket_id\(ts: u64, gran: TimeGranularity\) -> u32 \{\s*let start = naive_bucket_of\(ts, &gran\);\s*\(start & u32::MAX as u64\) as u32", src):
        raise Missing(f"{rel}: bucket_id = (start & u32::MAX) as u32")
    out.append("Definition tsite_bucket_mod : Z := (2 ^ 32)%Z.")
    for pat, what in ((r"while t <= end \{\s*let b = Self::bucket_id\(t, TimeGranularity::Hour\);", "add_zone_range hour loop"),
                      (r"while td <= end_day \{\s*let b = Self::bucket_id\(td, TimeGranularity::Day\);", "add_zone_range day loop"),
                      (r"if \*bucket >= start_b \{", "zones_for_ge compares bucket ids"),
                      (r"if \*bucket <= end_b \{", "zones_for_le compares bucket ids"),
                      (r"if let Some\(bm\) = self\.hour\.get\(&hb\) \{\s*return bm\.clone\(\);", "zones_for_ts prefers the hour map")):
        if not re.search(pat, src):
            raise Missing(f"{rel}: {what}")
    # --- temporal builder: which zones enter the calendar of a payload time field
    rel = "src/engine/core/time/temporal_builder.rs"
    src = read(rel)
    m = re.search(r"for \(field, ts_vals\) in ts_per_field\.into_iter\(\) \{(.*?)\n            \}\n", src, re.S)
    if not m:
        raise Missing(f"{rel}: per-field loop of build_for_zone_plans")
    body = m.group(1)
    if re.search(r"if min_ts >= 0 && max_ts >= 0 \{.*?add_zone_range\(zp\.id, min_ts as u64, max_ts as u64\)", body, re.S):
        guard = True
    elif re.search(r"add_zone_range\(zp\.id, min_ts\.max\(0\) as u64, max_ts\.max\(0\) as u64\)", body) and "if min_ts >= 0" not in body:
        guard = False
    else:
        raise Missing(f"{rel}: calendar registration of a payload time field (guarded or clamped)")
    out.append(f"Definition tsite_cal_guard : bool := {'true' if guard else 'false'}.")
    if "ZoneTemporalIndex::from_timestamps(ts_vals.clone(), 1, 64)" not in src:
        raise Missing(f"{rel}: zone temporal index with stride 1")
    # --- temporal pruner: literal handling
    rel = "src/engine/core/zone/selector/pruner/temporal_pruner.rs"
    src = read(rel)
    old = (re.search(r"ScalarValue::Int64\(i\) => \(\*i\)\.max\(0\) as u64,", src)
           and re.search(r"parsed\.max\(0\) as u64", src))
    new = (re.search(r"let ts: i64 = match value \{\s*ScalarValue::Int64\(i\) => \*i,", src)
           and re.search(r"let cal_ts: i64 = ts\.max\(0\);", src)
           and "zti.contains_ts(ts)" in src and "zones_intersecting(cmp, cal_ts)" in src)
    if old and not new:
        clamps = True
    elif new and not old:
        clamps = False
    else:
        raise Missing(f"{rel}: literal handling (clamped u64 or signed i64 with cal_ts)")
    out.append(f"Definition tsite_pruner_clamps : bool := {'true' if clamps else 'false'}.")
    if re.search(r"s\.parse::<u64>\(\)\.ok\(\)\.unwrap_or\(0\)", src):
        out.append("Definition tsite_pruner_u64_fallback : bool := true.")
        out.append("Definition tsite_pruner_unparsable : Z := 0%Z.")
    elif re.search(r"None => i64::MIN,", src):
        out.append("Definition tsite_pruner_u64_fallback : bool := false.")
        out.append("Definition tsite_pruner_unparsable : Z := (- 2 ^ 63)%Z.")
    elif re.search(r"parse_str_to_epoch_seconds\(s, TimeKind::DateTime\)\s*\.unwrap_or\(0\)", src):
        out.append("Definition tsite_pruner_u64_fallback : bool := false.")
        out.append("Definition tsite_pruner_unparsable : Z := 0%Z.")
    else:
        raise Missing(f"{rel}: value of an unparsable string literal")
    for pat, what in ((r"CompareOp::Gt => zti\.max_ts > ts", "Gt test"), (r"CompareOp::Gte => zti\.max_ts >= ts", "Gte test"),
                      (r"CompareOp::Lt => zti\.min_ts < ts", "Lt test"), (r"CompareOp::Lte => zti\.min_ts <= ts", "Lte test")):
        if not re.search(pat, src):
            raise Missing(f"{rel}: {what}")
    # --- field selector: what becomes of a pruner that has no answer (None)
    rel = "src/engine/core/zone/selector/field_selector.rs"
    src = read(rel)
    m = re.search(r"IndexStrategy::TemporalEq \{ \.\. \} \| IndexStrategy::TemporalRange \{ \.\. \} => \{\s*"
                  r"if let Some\(z\) = self\.temporal_pruner\.apply_temporal_only\(&args\) \{\s*candidate_zones = z;\s*\}(.*?)"
                  r"else \{\s*return Vec::new\(\);\s*\}", src, re.S)
    if not m:
        raise Missing(f"{rel}: temporal arm of select_for_segment")
    mid = re.sub(r"//[^\n]*", "", m.group(1)).strip()
    if mid == "":
        neq_all = False
    elif re.fullmatch(r"else if matches!\(operation, Some\(CompareOp::Neq\) \| Some\(CompareOp::In\)\) \{\s*candidate_zones =\s*"
                      r"collect_zones_for_scope\(self\.qplan, self\.caches, segment_id, Some\(uid\)\);\s*\}", mid, re.S):
        neq_all = True
    else:
        raise Missing(f"{rel}: unrecognised fall-back in the temporal arm: {mid!r}")
    out.append(f"Definition tsite_selector_neq_all_zones : bool := {'true' if neq_all else 'false'}.")
