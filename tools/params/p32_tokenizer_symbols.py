"""Params plug-in (C17): the characters the command tokenizer turns into Token::Symbol.
See tools/gen_params.py."""
import re
from gen_params import read, Missing


def gen(out):
    rel = "src/command/parser/tokenizer.rs"
    src = read(rel)
    m = re.search(r"((?:'(?:\\.|[^'\\])'\s*\|\s*)*'(?:\\.|[^'\\])')\s*=>\s*\{\s*tokens\.push\(Token::Symbol\(chars\.next\(\)\.unwrap\(\)\)\);", src)
    if not m:
        raise Missing(f"{rel}: the match arm that pushes Token::Symbol")
    chars = re.findall(r"'(\\.|[^'\\])'", m.group(1))
    codes = []
    for c in chars:
        if c.startswith("\\"):
            esc = {"\\n": 10, "\\t": 9, "\\r": 13, "\\\\": 92, "\\'": 39, "\\\"": 34}
            if c not in esc:
                raise Missing(f"{rel}: unsupported escape {c!r} in the Symbol arm")
            codes.append(esc[c])
        else:
            if ord(c) >= 128:
                raise Missing(f"{rel}: non-ASCII symbol character {c!r}")
            codes.append(ord(c))
    if not codes:
        raise Missing(f"{rel}: empty Symbol arm")
    # the arms tried before the Symbol arm, in the order the model's next_token tests them
    order = [r"' '\s*\|\s*'\\t'\s*\|\s*'\\n'\s*\|\s*'\\r'", r"'\{'", r"'\}'", r"';'", r"'\"'", r"'0'\.\.='9'\s*\|\s*'-'"]
    pos = -1
    for pat in order:
        mm = re.search(pat + r"\s*=>", src)
        if not mm or mm.start() < pos or mm.start() > m.start():
            raise Missing(f"{rel}: tokenizer arm order changed near {pat}")
        pos = mm.start()
    lst = "nil"
    for k in reversed(codes):
        lst = f"(cons {k}%N {lst})"
    out.append(f"Definition tokenizer_symbol_chars : list N := {lst}.")
