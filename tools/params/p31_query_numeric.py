"""Params plug-in (C17): are the numeric conversions inside the QUERY grammar's actions fallible
(`{? ... }` returning Err) or do they `unwrap()`?  The model's mode flag `fx` is set from the Rust text.
See tools/gen_params.py."""
import re
from gen_params import read, Missing


def _rule(src, rel, name):
    m = re.search(r"rule\s+" + name + r"\(\)\s*->\s*\w+\s*=(.*?)(?=\n\s*rule\s|\n\s*//\s*=====|\Z)", src, re.S)
    if not m:
        raise Missing(f"{rel}: rule {name}")
    return m.group(1)


def gen(out):
    rel = "src/command/parser/commands/query.rs"
    src = read(rel)
    states = {}
    for name, needle in (("limit_clause", "parse::<u32>()"), ("offset_clause", "parse::<u32>()"), ("number", "parse::<i64>()")):
        body = _rule(src, rel, name)
        if needle not in body:
            raise Missing(f"{rel}: rule {name} no longer converts with {needle}")
        unwraps = ".unwrap()" in body
        fallible = "{?" in body
        if unwraps == fallible:
            raise Missing(f"{rel}: rule {name}: cannot tell whether the conversion is checked (unwrap={unwraps}, fallible action={fallible})")
        states[name] = fallible
    if "from_f64" not in _rule(src, rel, "number"):
        raise Missing(f"{rel}: rule number no longer goes through Number::from_f64")
    vals = set(states.values())
    if len(vals) != 1:
        raise Missing(f"{rel}: the numeric conversions are only partly checked {states}; the model supports all-or-none")
    out.append(f"Definition query_numeric_fallible : bool := {'true' if vals.pop() else 'false'}.")
