#!/usr/bin/env python3
"""Assembles /verif/MANIFEST.json from the per-property modules (tools/props/cNN.py with
CLAIMED = True and a MANIFEST dict) and /verif/known_findings.json from known/*.json.
Run by hand before committing; never at check time."""
import glob, importlib, json, os, sys
HERE = os.path.dirname(os.path.abspath(__file__))
VERIF = os.path.dirname(HERE)
sys.path.insert(0, HERE)

ALL = [f"C{i:02d}" for i in range(1, 21)]
TECH = "machine-checked proof in Rocq (Coq 8.16.1) over an executable model + translator/correspondence tie to the Rust code"


def main():
    checks, served, na = [], [], []
    reasons = json.load(open(os.path.join(VERIF, "not_claimed.json")))
    for pid in ALL:
        try:
            mod = importlib.import_module(f"props.{pid.lower()}")
        except ModuleNotFoundError:
            mod = None
        if mod is not None and getattr(mod, "CLAIMED", False):
            e = mod.MANIFEST
            checks.append({
                "property_id": pid, "quick_cmd": f"./check {pid} --tier quick", "thorough_cmd": f"./check {pid} --tier thorough",
                "evidence_file": f"/verif/evidence/{pid}.json", "replay_cmd_template": f"./check {pid} --replay {{path}}",
                "engine": "rocq-proof+correspondence", "technique": e.get("technique", TECH),
                "level_claimed": {"category": "proof", "text": e["level_text"], "design_ref": e.get("design_ref", f"DESIGN.md §6 {pid}")},
                "level_note": e["level_note"]})
            served.append(pid)
        else:
            na.append({"property_id": pid, "reason": reasons.get(pid, "not yet covered by a model, theorem and correspondence probe (in progress; not a limit of the technique)")})
    hooks = json.load(open(os.path.join(VERIF, "hooks.json")))
    m = {"version": 1, "setup_cmd": "./setup.sh", "hooks": hooks,
         "engines": [{"name": "rocq-proof+correspondence", "path": "/verif/check", "serves_properties": served,
                      "kind_free_text": "Rocq 8.16 theorems about hand-written executable models; tie to /repo by a constants translator and by differential runs of the OCaml-extracted model against the real functions / engine"}],
         "checks": checks, "not_applicable": na,
         "notes": "See DESIGN.md. Properties under not_applicable with reason 'not yet covered' are unfinished work, not limits of the technique."}
    json.dump(m, open(os.path.join(VERIF, "MANIFEST.json"), "w"), indent=1)
    known = []
    for p in sorted(glob.glob(os.path.join(VERIF, "known", "*.json"))):
        known += json.load(open(p))
    json.dump(known, open(os.path.join(VERIF, "known_findings.json"), "w"), indent=1)
    print(f"MANIFEST: {len(checks)} checks, {len(na)} not claimed; known findings: {len(known)}")


if __name__ == "__main__":
    main()
