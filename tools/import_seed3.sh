#!/bin/bash
# import_seed3.sh Cnn : copy the round-3 deliverables of /tmp/seed3/Cnn/SEED into /verif/seeded/Cnn-E and Cnn-F, remove the worktree
p=$1; S=/tmp/seed3/$p/SEED
[ -f $S/bugA.diff ] || { echo "no deliverables in $S"; exit 1; }
for x in A:E B:F; do a=${x%:*}; c=${x#*:}; d=/verif/seeded/$p-$c; mkdir -p $d
  cp $S/bug$a.diff $d/patch.diff; cp $S/README.md $d/README.seed.md
  for f in $S/demo$a*; do [ -e "$f" ] && cp -r "$f" $d/; done
done
git -C /repo apply --check /verif/seeded/$p-E/patch.diff && echo "$p-E applies"; git -C /repo apply --check /verif/seeded/$p-F/patch.diff && echo "$p-F applies"
rm -rf /tmp/seed3/$p/target; git -C /repo worktree remove --force /tmp/seed3/$p
