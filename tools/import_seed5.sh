#!/bin/bash
# import_seed5.sh Cnn L1 L2 : copy the round-5 deliverables of /tmp/seed5/Cnn/SEED into /verif/seeded/Cnn-L1 and Cnn-L2, remove the worktree
p=$1; l1=$2; l2=$3; S=/tmp/seed5/$p/SEED
[ -f $S/bugA.diff ] || { echo "no deliverables in $S"; exit 1; }
for x in A:$l1 B:$l2; do a=${x%:*}; c=${x#*:}; d=/verif/seeded/$p-$c; mkdir -p $d
  cp $S/bug$a.diff $d/patch.diff; cp $S/README.md $d/README.seed.md
  for f in $S/demo$a*; do [ -e "$f" ] && cp -r "$f" $d/; done
done
git -C /repo apply --check /verif/seeded/$p-$l1/patch.diff && echo "$p-$l1 applies"; git -C /repo apply --check /verif/seeded/$p-$l2/patch.diff && echo "$p-$l2 applies"
rm -rf /tmp/seed5/$p/target; git -C /repo worktree remove --force /tmp/seed5/$p
