"""Engine-level histories on one shard with trace validation against Model/Shard.v.

A history is a list of ops:
  ("S", uid, ctx)            STORE an event of type t<uid> for context c<ctx> (payload k = running number)
  ("F",)                     FLUSH
  ("O",)                     observe (QUERY / COUNT per type, REPLAY per context, directory digest)
  ("R",)                     kill the (quiescent) process and restart on the same directories
  ("X", point, hit)          arm abort() at the hit-th visit of step point <point>; the history goes on until
                             the process dies, then restarts and observes
  ("P", point, n_obs)        park the next visit of <point>; the NEXT op is issued in the background,
                             n_obs observations are taken while parked, then released
  ("C",)                     one compaction round (hook compact_now)
After every command the runner waits for quiescence (flush queue empty, WAL thread drained) unless parked.
The step-point trace (crash-surviving file) is mapped to model labels; the model replays them.
"""
import json, os, re, time, threading, concurrent.futures
import engine, vlib

FW_MAP = {"fw_begin": "fb", "fl_dir_created": "fm", "fl_index_entry_added": "fi", "fw_published": "fp", "fw_passive_cleared": "fc",
          "fw_wal_cleaned": "fx", "fw_done": "fd", "wal_written": "W"}


def tname(u):
    return f"t{u}"


def cname(c):
    return f"c{c:02d}"


class Run:
    def __init__(self, cfg, ntypes, nctx, tag):
        self.cfg, self.ntypes, self.nctx = cfg, ntypes, nctx
        self.eng = engine.Engine(**cfg)
        self.trace_path = os.path.join(self.eng.root, "trace.log")
        self.trace_off = 0
        self.tokens = []          # model ops
        self.obs = []             # implementation observations (dict) per O
        self.acked = []           # (k, uid, ctx) acknowledged stores in order
        self.maybe = []           # stores whose acknowledgement was not received (crash)
        self.k = 0
        self.notes = []
        self.crashed = 0
        self.pending_store = None
        self.pending_fifo = []
        self.racing_acked = []
        self.wal_started_this_life = False
        self.compacted = False

    def start(self):
        self.eng_env()
        self.eng.start()
        self.uidmap = {}
        for u in range(self.ntypes):
            fields = '{ k: "int", note: "string | null" }' if self.cfg.get("notes") else '{ k: "int" }'
            r = self.eng.cmd(f'DEFINE {tname(u)} FIELDS {fields}')
            uid = self.eng.cmd(f"!uid {tname(u)}").get("uid")
            if uid:
                self.uidmap[uid] = u
        self.tokens.append("k%d" % int(self.cfg.get("segments_per_merge", 2)))
        if getattr(self, "watch", False):
            self.watch_index_start()
        return self

    # ---- the shard's segment index must only ever be replaced by a rename onto it (C11: "atomically replace the
    # shard's segment index"): an inotify watcher on <root>/cols records every time segments.idx is moved away or
    # deleted.  Started after the engine created its shard directories, stopped before the result is built.
    def watch_index_start(self):
        import subprocess
        cols = os.path.join(self.eng.root, "cols")
        if not os.path.isdir(cols):
            self.notes.append("index watcher: no cols directory yet")
            return
        self.watch_log = os.path.join(self.eng.root, "inotify.log")
        try:
            self.watch_p = subprocess.Popen(
                ["inotifywait", "-m", "-r", "-e", "moved_from", "-e", "moved_to", "-e", "delete", "-e", "create",
                 "--format", "%e %w%f", "-o", self.watch_log, cols],
                stdout=subprocess.DEVNULL, stderr=subprocess.PIPE, text=True, preexec_fn=vlib.die_with_parent)
        except FileNotFoundError:
            self.notes.append("index watcher: inotifywait is not installed")
            self.watch_p = None
            return
        for _ in range(50):
            line = self.watch_p.stderr.readline()
            if not line or "Watches established" in line:
                break

    def watch_index_stop(self):
        p = getattr(self, "watch_p", None)
        if not p:
            return None
        time.sleep(0.05)
        p.terminate()
        try:
            p.wait(timeout=5)
        except Exception:
            p.kill()
        self.watch_p = None
        bad, seen = [], set()
        try:
            for ln in open(self.watch_log):
                ev, _, path = ln.strip().partition(" ")
                if os.path.basename(path) != "segments.idx":
                    continue
                shard = os.path.basename(os.path.dirname(path))
                if ("MOVED_FROM" in ev or "DELETE" in ev) and shard in seen:
                    bad.append(f"{shard}/segments.idx {ev}")
                if "MOVED_TO" in ev or "CREATE" in ev:
                    seen.add(shard)
        except FileNotFoundError:
            pass
        return {"published": sorted(seen), "removed": bad}

    def eng_env(self):
        # the engine child inherits SNELDB_VERIF_TRACE through engine.Engine.start's environment
        self.eng.extra_env = {"SNELDB_VERIF_TRACE": self.trace_path}

    # ---- trace -> model tokens
    def drain_trace(self, store_tok=None):
        try:
            with open(self.trace_path) as f:
                f.seek(self.trace_off)
                data = f.read()
                self.trace_off = f.tell()
        except FileNotFoundError:
            return
        for ln in data.split("\n"):
            ln = ln.strip()
            if not ln:
                continue
            if ln == "st_wal_sent":   # the STORE reached the shard: WAL send, then memtable insert (one model step)
                if self.pending_fifo:
                    self.tokens.append(self.pending_fifo.pop(0))
                elif self.pending_store:
                    self.tokens.append(self.pending_store)
                    self.pending_store = None
                else:
                    self.notes.append("st_wal_sent without a pending store")
            elif ln.startswith("fl_type_written="):
                t = ln.split("=", 1)[1]
                self.tokens.append(f"fw{int(t[1:])}")
            elif ln.startswith("cp_output_written="):
                o, ins, us = ln.split("=", 1)[1].split(":")
                self.tokens.append("cw%d:%s:%s" % (int(o), "+".join(str(int(x)) for x in ins.split(",")),
                                                    "+".join(str(self.uidmap.get(u, 99)) for u in us.split(","))))
            elif ln == "cp_index_saved":
                self.tokens.append("ci")
            elif ln == "cp_live_updated":
                self.tokens.append("cl")
            elif ln == "cp_reclaim_moved":
                self.tokens.append("cr")
            elif ln.startswith("walc_deleted="):
                self.tokens.append("wd" + ln.split("=", 1)[1])
            elif ln.startswith("wal_file_started="):
                # the first one of a lifetime is the writer's start-up (part of the model's restart/init)
                if self.wal_started_this_life:
                    self.tokens.append("Wr")
                self.wal_started_this_life = True
            elif ln in FW_MAP:
                self.tokens.append(FW_MAP[ln])

    def quiesce(self):
        self.eng.cmd("!flushwait")
        self.eng.cmd("!wal_drained 3000")
        self.eng.cmd("!sleep 5")

    def observe(self):
        o = {}
        for u in range(self.ntypes):
            r = self.eng.rows(f"QUERY {tname(u)} RETURN [k]")
            o[f"sel{u}"] = sorted(int(x["k"]) for x in r["rows"] if x.get("k") is not None) if r["status"] == 200 else f"ERR{r['status']}"
            r = self.eng.rows(f"QUERY {tname(u)} COUNT")
            o[f"cnt{u}"] = int(r["rows"][0]["count"]) if r["status"] == 200 and r["rows"] else 0
        for u in range(self.ntypes):
            for c in range(self.nctx):
                r = self.eng.rows(f"REPLAY {tname(u)} FOR {cname(c)}")
                o[f"rp{u}_{c}"] = [int(x["k"]) for x in r["rows"] if x.get("k") is not None]
        if self.ntypes > 1 and self.cfg.get("wildcard_replay"):
            for c in range(self.nctx):
                r = self.eng.rows(f"REPLAY FOR {cname(c)}")
                o[f"rpw{c}"] = [int(x["k"]) for x in r["rows"] if x.get("k") is not None]
        d = self.eng.dir_digest(hashes=True).get("shard-0", {"segs": {}, "wal": {}, "other": []})
        o["dirs"] = sorted(int(x) for x in d["segs"])
        o["wal"] = {int(re.sub(r"\D", "", f)): n for f, n in d["wal"].items() if f.endswith(".log")}
        o["hashes"] = {seg: files for seg, files in d["segs"].items()}
        ix = self.eng.cmd("!index 0").get("index")
        # after an injected crash segments.idx can be ahead of the logged labels (crash inside save) or be
        # rebuilt from the directories on load: it is compared with the model in crash-free histories only
        if ix is not None and not self.crashed:
            o["index"] = sorted((int(e.split(":")[0]), sorted(self.uidmap.get(u, 99) for u in e.split(":")[1].split(",") if u)) for e in ix)
        o["compacted"] = self.compacted
        o["acked"] = list(self.acked)
        o["maybe"] = list(self.maybe)
        self.obs.append(o)
        self.tokens.append("O")

    def payload(self, k):
        """{"k": k} or, in histories with notes, also a long text of multi-byte characters whose byte alignment
        varies from event to event (serialised WAL lines of 150..900 bytes)"""
        if not self.cfg.get("notes"):
            return '{"k": %d}' % k
        base = ["\u65e5\u672c\u8a9e\u30c6\u30ad\u30b9\u30c8", "\u00e9\u00e8\u00fc\u00f1", "\U0001f600\U0001f680", "\u4e2d\u6587"][k % 4]
        text = "x" * (k % 5) + (base * 60)[: 30 + (k * 37) % 200]
        return '{"k": %d, "note": "%s"}' % (k, text)

    def do_store(self, u, c):
        self.k += 1
        k = self.k
        self.pending_store = f"S{k}.{c}.{u}"
        self.maybe.append((k, u, c))
        r = self.eng.cmd(f'STORE {tname(u)} FOR {cname(c)} PAYLOAD {self.payload(k)}')
        if '"status":200' in r.get("out", ""):
            # acknowledged; it counts as APPLIED only once the shard processed it and the WAL thread
            # wrote it (quiesce below) - until then a crash may legitimately lose it
            pass
        else:
            self.maybe.pop()
            self.pending_store = None
            self.notes.append(f"store rejected: {r}")

    def disk_state(self):
        d = self.eng.dir_digest(hashes=False).get("shard-0", {"segs": {}, "wal": {}, "other": []})
        dirs = sorted(int(x) for x in d["segs"])
        wal = {int(re.sub(r"\D", "", f)): n for f, n in d["wal"].items() if f.endswith(".log")}
        return dirs, wal

    def model_disk(self, extra):
        import subprocess
        cap = int(self.cfg.get("fill_factor", 2)) * int(self.cfg.get("event_per_zone", 2))
        line = f"shard_run {cap} {self.ntypes} {self.nctx} " + " ".join(self.tokens + extra + ["O"])
        out = subprocess.run([vlib.MODEL_RUN], input=line + "\n", capture_output=True, text=True).stdout.strip()
        m = parse_model_obs(out.split(" | ")[-1])
        mw = {}
        for part in m.get("wal", "").split(","):
            if ":" in part:
                a, b = part.split(":")
                mw[int(a)] = int(b)
        return ints(m.get("dirs", "")), mw

    def reconcile_crash(self):
        """A crash can land after a step of ANOTHER thread completed but before its label was logged.
        Find the (at most one per thread) unlogged steps that make the model's disk state equal to
        the real one; if none does, the difference is reported by the normal comparison."""
        try:
            dirs, wal = self.disk_state()
        except Exception:
            return
        wal_opts = [[], ["W"], ["Wr"], ["W", "Wr"]]
        fl_opts = [[], ["fm"], ["fb", "fm"]] + [[f"fw{u}"] for u in range(self.ntypes)] + [[f"wd{i}"] for i in sorted(wal)] \
            + [[f"wd{i}"] for i in range(0, 1 + max([0] + list(wal)))]
        for w in wal_opts:
            for f in fl_opts:
                md, mw = self.model_disk(w + f)
                if sorted(md) == dirs and mw == wal:
                    if w + f:
                        self.notes.append("crash reconciliation: unlogged steps " + " ".join(w + f))
                        self.tokens += w + f
                    return

    def restart(self):
        self.eng.stop()
        self.drain_trace()
        self.pending_store = None
        self.tokens += ["K", "T"]
        self.wal_started_this_life = False
        self.eng.start()

    def run(self, ops):
        try:
            self.start()
            i = 0
            while i < len(ops):
                op = ops[i]
                i += 1
                try:
                    if op[0] == "S":
                        self.do_store(op[1], op[2])
                        self.quiesce(); self.drain_trace()
                        if self.maybe and self.pending_store is None:
                            self.acked.append(self.maybe.pop())
                    elif op[0] == "SQ":
                        # STORE immediately followed by a QUERY, without waiting for the background flush:
                        # reads race with rotations and segment writes (no model prediction for the racing read)
                        self.k += 1
                        k = self.k
                        self.pending_fifo.append(f"S{k}.{op[2]}.{op[1]}")
                        r = self.eng.cmd(f'STORE {tname(op[1])} FOR {cname(op[2])} PAYLOAD {self.payload(k)}')
                        if '"status":200' in r.get("out", ""):
                            self.racing_acked.append((k, op[1], op[2]))
                        self.eng.rows(f"QUERY {tname(op[1])} RETURN [k]")
                    elif op[0] == "SN":
                        # STORE without waiting for quiescence (the flush worker may be parked)
                        self.k += 1
                        k = self.k
                        self.pending_fifo.append(f"S{k}.{op[2]}.{op[1]}")
                        r = self.eng.cmd(f'STORE {tname(op[1])} FOR {cname(op[2])} PAYLOAD {self.payload(k)}')
                        if '"status":200' in r.get("out", ""):
                            self.racing_acked.append((k, op[1], op[2]))
                        self.eng.cmd("!wal_drained 1500"); self.eng.cmd("!sleep 20")
                        self.drain_trace()
                        self.acked += self.racing_acked; self.racing_acked = []
                    elif op[0] == "PARK":
                        self.eng.cmd(f"!park {op[1]}")
                    elif op[0] == "RELEASE":
                        self.eng.cmd(f"!release {op[1]}")
                    elif op[0] == "WAITP":
                        w = self.eng.cmd(f"!wait_parked {op[1]} 2000")
                        if not w.get("parked"):
                            self.notes.append(f"park point {op[1]} not reached")
                    elif op[0] == "MARKHITS":
                        self.hit_marks = getattr(self, "hit_marks", {})
                        self.hit_marks[op[1]] = int(self.eng.cmd(f"!hits {op[1]}").get("hits", 0))
                    elif op[0] == "WAITMORE":
                        import time as _t
                        base_n = getattr(self, "hit_marks", {}).get(op[1], 0)
                        ok = False
                        for _ in range(400):
                            if int(self.eng.cmd(f"!hits {op[1]}").get("hits", 0)) >= base_n + int(op[2]):
                                ok = True
                                break
                            _t.sleep(0.005)
                        if not ok:
                            self.notes.append(f"step point {op[1]} was not hit {op[2]} more times")
                    elif op[0] == "WAITHITS":
                        import time as _t
                        ok = False
                        for _ in range(400):
                            if int(self.eng.cmd(f"!hits {op[1]}").get("hits", 0)) >= int(op[2]):
                                ok = True
                                break
                            _t.sleep(0.005)
                        if not ok:
                            self.notes.append(f"step point {op[1]} was not hit {op[2]} times")
                    elif op[0] == "BGC":
                        self.tokens.append("cs")
                        self.compacted = True
                        self.eng.cmd("!bgcompact 0")
                    elif op[0] == "CSNAP":
                        # a compaction round with a snapshot of every segment directory and of segments.idx at each
                        # batch's "output written" (A) and "live list updated" (B) step: what a batch published must
                        # not change when a later batch of the same round runs
                        import time as _t
                        A, B = "cp_output_written", "cp_live_updated"
                        self.tokens.append("cs")
                        self.compacted = True
                        seen = {x: int(self.eng.cmd(f"!hits {x}").get("hits", 0)) for x in (A, B)}
                        self.eng.cmd(f"!park {A}"); self.eng.cmd(f"!park {B}")
                        reclaimed0 = int(self.eng.cmd("!hits cp_reclaim_deleted").get("hits", 0))
                        self.eng.cmd("!bgcompact 0")
                        self.snaps = getattr(self, "snaps", [])
                        committed = 0
                        t_end = _t.time() + 25
                        while _t.time() < t_end:
                            hit = None
                            for x, other in ((A, B), (B, A)):
                                if int(self.eng.cmd(f"!hits {x}").get("hits", 0)) > seen[x]:
                                    hit = (x, other)
                                    break
                            if hit:
                                x, other = hit
                                seen[x] += 1
                                _t.sleep(0.01)   # the hit counter moves just before the thread blocks
                                d = self.eng.dir_digest(hashes=True).get("shard-0", {"segs": {}})
                                ix = self.eng.cmd("!index 0").get("index") or []
                                self.snaps.append({"at": x, "after_obs": len(self.obs), "hashes": d["segs"],
                                                   "listed": sorted(int(e.split(":")[0]) for e in ix)})
                                if x == A and op[1:] and op[1] == "read" and committed > 0:
                                    # a read in the middle of the round: the previous batch is committed (inputs retired,
                                    # output live), the next one has written its output and holds no lock (the step
                                    # point at the live-list update is taken while that list is write-locked, so reads
                                    # wait there) - every event exactly once
                                    self.drain_trace()
                                    self.observe()
                                    self.obs[-1]["parked_at"] = "cp_between_batches"
                                if x == B:
                                    committed += 1
                                self.eng.cmd(f"!park {other}")
                                self.eng.cmd(f"!release {x}")
                            elif self.eng.cmd("!bgcdone").get("done"):
                                break
                            else:
                                _t.sleep(0.005)
                        self.eng.cmd(f"!release {A}"); self.eng.cmd(f"!release {B}")
                        jr = self.eng.cmd("!joincompact")
                        if int(jr.get("plans", 0) or 0) > 0:
                            # the reclaim of the drained inputs runs on a spawned task: wait until it reported (as the
                            # synchronous !compact control does), else the observation can race it
                            for _ in range(80):
                                if int(self.eng.cmd("!hits cp_reclaim_deleted").get("hits", 0)) > reclaimed0:
                                    break
                                _t.sleep(0.025)
                        self.eng.cmd("!sleep 40")
                        self.drain_trace()
                    elif op[0] == "JOINC":
                        self.eng.cmd("!joincompact"); self.eng.cmd("!sleep 40")
                        self.drain_trace()
                    elif op[0] == "BGQ":
                        # what the background read must return at least: every event of the type applied so far
                        self.bgq = {"u": op[1], "must": sorted(k for (k, u, _c) in self.acked if u == op[1])}
                        self.eng.cmd(f"!bg QUERY {tname(op[1])} RETURN [k]")
                    elif op[0] == "JOIN":
                        r = self.eng.cmd("!join")
                        q = getattr(self, "bgq", None)
                        if q is not None:
                            pr = engine.parse_stream(r)
                            q["status"] = pr.get("status")
                            q["rows"] = [int(x["k"]) for x in pr.get("rows", []) if x.get("k") is not None]
                            self.bgreads = getattr(self, "bgreads", []) + [q]
                            self.bgq = None
                    elif op[0] == "OP":
                        # observation while something is parked (COUNT is schedule dependent then)
                        self.drain_trace()
                        self.observe()
                        self.obs[-1]["parked_at"] = op[1]
                    elif op[0] == "SLOW":
                        # a stalled write: the file <uid>.<ext> of the segment directory op[1] is a FIFO nobody reads yet,
                        # so the flush that writes it blocks in that write until DRAIN
                        rev = {v: k for k, v in self.uidmap.items()}
                        d = os.path.join(self.eng.root, "cols", "shard-0", "%05d" % int(op[1]))
                        os.makedirs(d, exist_ok=True)
                        self.slow = os.path.join(d, rev[op[2]] + "." + op[3])
                        os.mkfifo(self.slow)
                    elif op[0] == "DRAIN":
                        # the slow write completes: read what the writer wrote and put it where the file belongs
                        import threading
                        box = {}
                        def _rd():
                            with open(self.slow, "rb") as f:
                                box["data"] = f.read()
                        th = threading.Thread(target=_rd, daemon=True); th.start(); th.join(10)
                        if "data" in box:
                            tmp = self.slow + ".drained"
                            open(tmp, "wb").write(box["data"]); os.replace(tmp, self.slow)
                        else:
                            self.notes.append("DRAIN: nobody wrote the stalled file")
                            try:
                                os.unlink(self.slow)
                            except OSError:
                                pass
                    elif op[0] == "NOW":
                        # the wall clock the STORE handler stamps events with (whole seconds) is pinned to this value
                        self.eng.cmd(f"!now {int(op[1])}")
                    elif op[0] == "CLOCKMS":
                        # the event-id generator's millisecond clock reads op[1], op[1]+1, ... from now on (this lifetime)
                        self.eng.cmd(f"!clock_ms 1 {int(op[1])}")
                    elif op[0] == "SLEEP":
                        self.eng.cmd(f"!sleep {int(op[1])}")
                    elif op[0] == "FAILIDX":
                        # fault: segments.idx cannot be replaced (a directory sits where the temporary file is written)
                        os.makedirs(os.path.join(self.eng.root, "cols", "shard-0", "segments.idx.tmp"), exist_ok=True)
                    elif op[0] == "UNFAILIDX":
                        try:
                            os.rmdir(os.path.join(self.eng.root, "cols", "shard-0", "segments.idx.tmp"))
                        except OSError:
                            pass
                    elif op[0] == "HIDE":
                        # read fault: the <uid>.zones file of a segment (op[1] = position among the existing segment
                        # directories, op[2] = event type) becomes unreadable (renamed) until UNHIDE
                        base_d = os.path.join(self.eng.root, "cols", "shard-0")
                        segs = sorted(d for d in os.listdir(base_d) if d.isdigit())
                        rev = {v: k for k, v in self.uidmap.items()}
                        self.hidden = getattr(self, "hidden", [])
                        if segs and op[2] in rev:
                            f = os.path.join(base_d, segs[int(op[1]) % len(segs)], rev[op[2]] + ".zones")
                            if os.path.exists(f):
                                os.rename(f, f + ".hidden"); self.hidden.append(f)
                        if not self.hidden:
                            self.notes.append("HIDE found no file")
                    elif op[0] == "UNHIDE":
                        for f in getattr(self, "hidden", []):
                            if os.path.exists(f + ".hidden") and os.path.isdir(os.path.dirname(f)):
                                os.rename(f + ".hidden", f)
                        self.hidden = []
                    elif op[0] == "BLOCKSEG":
                        # fault: a regular file sits where the next segment directory has to be created
                        path = os.path.join(self.eng.root, "cols", "shard-0", "%05d" % int(op[1]))
                        os.makedirs(os.path.dirname(path), exist_ok=True)
                        open(path, "w").write("x")
                    elif op[0] == "SETTLE":
                        self.quiesce(); self.eng.cmd("!sleep 300"); self.quiesce(); self.drain_trace()
                        self.acked += self.racing_acked
                        self.racing_acked = []
                    elif op[0] == "F":
                        self.tokens.append("F")
                        self.eng.cmd("FLUSH")
                        self.quiesce(); self.drain_trace()
                    elif op[0] == "O":
                        self.observe()
                    elif op[0] == "R":
                        self.quiesce(); self.drain_trace()
                        self.restart()
                    elif op[0] == "KR":
                        # kill + restart while flushes are still pending (the flush worker is typically parked): the WAL
                        # thread has written everything, several log files are live
                        self.eng.cmd("!wal_drained 1500"); self.drain_trace()
                        self.restart()
                    elif op[0] == "X":
                        self.eng.cmd(f"!arm_abort {op[1]} {op[2]}")
                    elif op[0] == "C":
                        self.tokens.append("cs")
                        self.compacted = True
                        self.eng.cmd("!compact 0")
                        self.eng.cmd("!sleep 30")
                        self.drain_trace()
                    elif op[0] == "P":
                        point, nobs = op[1], op[2]
                        self.eng.cmd(f"!park {point}")
                        nxt = ops[i]; i += 1
                        if nxt[0] == "S":
                            self.k += 1
                            k = self.k
                            self.pending_store = f"S{k}.{nxt[2]}.{nxt[1]}"
                            self.eng.cmd(f'!bg STORE {tname(nxt[1])} FOR {cname(nxt[2])} PAYLOAD {self.payload(k)}')
                            pend = (k, nxt[1], nxt[2])
                        else:
                            self.tokens.append("F")
                            self.eng.cmd("!bg FLUSH")
                            pend = None
                        w = self.eng.cmd(f"!wait_parked {point} 1500")
                        if pend:
                            # the STORE itself is acknowledged before the background flush parks
                            self.acked.append(pend)
                        self.eng.cmd("!wal_drained 1500")
                        # the WAL thread opens the next log file right after the write that filled the current one: give
                        # that step time to log its label before the observation (seen once under load: file on disk,
                        # label not yet in the trace)
                        self.eng.cmd("!sleep 60")
                        self.drain_trace()
                        if w.get("parked"):
                            for _ in range(nobs):
                                self.observe()
                                self.obs[-1]["parked_at"] = point
                        else:
                            self.notes.append(f"park point {point} not reached")
                        self.eng.cmd(f"!release {point}")
                        self.eng.cmd("!join")
                        self.quiesce(); self.drain_trace()
                except engine.Crashed:
                    self.crashed += 1
                    self.eng.stop()
                    self.drain_trace()
                    self.reconcile_crash()
                    if self.pending_store and self.maybe:
                        pass  # un-acknowledged store stays in maybe
                    self.pending_store = None
                    self.tokens += ["K", "T"]
                    self.wal_started_this_life = False
                    self.eng.start()
                    self.observe()
                    self.obs[-1]["after_crash"] = True
            w = self.watch_index_stop()
            res = self.result()
            if w is not None:
                res["idxwatch"] = w
            return res
        finally:
            self.watch_index_stop()
            self.eng.destroy()

    def result(self):
        cap = int(self.cfg.get("fill_factor", 2)) * int(self.cfg.get("event_per_zone", 2))
        line = f"shard_run {cap} {self.ntypes} {self.nctx} " + " ".join(self.tokens)
        return {"line": line, "obs": self.obs, "notes": self.notes, "crashed": self.crashed,
                "bgreads": getattr(self, "bgreads", []), "snaps": getattr(self, "snaps", [])}


def run_history(case):
    r = Run(case["cfg"], case["ntypes"], case["nctx"], case.get("tag", ""))
    r.watch = bool(case.get("watch_index"))
    try:
        return r.run([tuple(o) for o in case["ops"]])
    except Exception as ex:  # harness failure: report, never hide
        return {"line": None, "obs": [], "notes": [f"HARNESS-ERROR {type(ex).__name__}: {ex}"], "crashed": 0}


def run_histories(cases, workers=10):
    with concurrent.futures.ThreadPoolExecutor(max_workers=workers) as ex:
        return list(ex.map(run_history, cases))


# ---- comparing one observation of the implementation with the model's
def parse_model_obs(s):
    d = {}
    for part in s.strip().split(";"):
        if "=" in part:
            k, v = part.split("=", 1)
            d[k] = v
    return d


def ints(v):
    return [int(x) for x in v.split(",") if x != ""]


def is_interleaving(seq, a, b):
    """seq is an order-preserving merge of a and b after dropping repeated elements
    (the response writer keeps the first occurrence of an event id)."""
    n, m = len(a), len(b)
    if len(set(seq)) != len(seq) or set(seq) != set(a) | set(b):
        return False
    pos_of = {x: i for i, x in enumerate(seq)}
    # state: (i, j, p) = consumed i of a, j of b, emitted p elements of seq
    seen_states = set()
    stack = [(0, 0, 0)]
    while stack:
        st = stack.pop()
        if st in seen_states:
            continue
        seen_states.add(st)
        i, j, p = st
        if i == n and j == m:
            if p == len(seq):
                return True
            continue
        cands = []
        if i < n:
            cands.append((a[i], i + 1, j))
        if j < m:
            cands.append((b[j], i, j + 1))
        for x, ni, nj in cands:
            if pos_of[x] < p:          # already emitted: dropped as a duplicate
                stack.append((ni, nj, p))
            elif pos_of[x] == p:       # emitted now
                stack.append((ni, nj, p + 1))
    return False


def compare_obs(impl_o, model_s, ntypes, nctx):
    """Returns a list of difference descriptions (empty = the model predicted the observation)."""
    m = parse_model_obs(model_s)
    diffs = []
    for u in range(ntypes):
        # a live directory without any file (crash leftover listed as live by restart) makes the segment flow
        # of a read fail as a whole now and then, like an in-flight directory without files (known findings)
        fragile = m.get(f"fragile{u}") == "true" or m.get("incomplete", "") != ""
        # rows of a segment label re-created within one process lifetime (model: stalerows) can be missed by any
        # read that goes through the stale label-keyed caches - typed REPLAY and, more rarely, QUERY (known finding)
        stale_u = set(ints(m.get("stalerows", ""))) if impl_o.get("compacted") else set()
        msel = sorted(ints(m.get(f"sel{u}", "")))
        stale_ok = bool(stale_u) and len(set(impl_o[f"sel{u}"])) == len(impl_o[f"sel{u}"]) and \
            set(msel) - stale_u <= set(impl_o[f"sel{u}"]) <= set(msel)
        if impl_o[f"sel{u}"] != msel and not stale_ok and not (
                fragile and impl_o[f"sel{u}"] == sorted(ints(m.get(f"selm{u}", "")))):
            diffs.append(f"sel{u}: impl {impl_o[f'sel{u}']} model {m.get(f'sel{u}')}")
        # COUNT while a flush is in flight is schedule dependent in the implementation (the two flows race);
        # the correspondence compares it at quiescent observations only (the property oracle still checks it)
        # (a quiescent observation at which the model still has an unfinished flush job means the engine's flush
        # failed after writing files - seen when a flush raced a compaction hand-over; the model has no account of
        # a failed flush, so COUNT is left to the oracle there)
        failed_flush = m.get("jobs", "0") not in ("0", "") and (not impl_o.get("parked_at") or str(impl_o.get("parked_at")).startswith("cp_"))
        quiet = not impl_o.get("parked_at") or str(impl_o.get("parked_at")).startswith("cp_")   # no flush in flight
        if quiet and not fragile and not failed_flush and not (stale_ok and impl_o[f"sel{u}"] != msel) \
                and impl_o[f"cnt{u}"] != int(m.get(f"cnt{u}", "0") or 0):
            diffs.append(f"cnt{u}: impl {impl_o[f'cnt{u}']} model {m.get(f'cnt{u}')}")
    for u in range(ntypes):
        for c in range(nctx):
            key = f"{u}_{c}"
            if impl_o.get("compacted"):
                # the compaction merge orders equal context ids arbitrarily (heap on context id only): the
                # model fixes one order, the comparison is on the multiset
                allr = set(ints(m.get(f"rm{key}", "")) + ints(m.get(f"rs{key}", "")))
                stale = set(ints(m.get("stalerows", "")))
                got = impl_o[f"rp{key}"]
                # a segment label re-created within one process lifetime can be read through stale label-keyed
                # caches: context-scoped reads may miss rows of exactly those segments (C05/C11 known finding)
                if len(set(got)) != len(got) or not (allr - stale <= set(got) <= allr):
                    diffs.append(f"rp{key}: impl {impl_o[f'rp{key}']} model mem {m.get(f'rm{key}')} / seg {m.get(f'rs{key}')} (as sets)")
            elif not is_interleaving(impl_o[f"rp{key}"], ints(m.get(f"rm{key}", "")), ints(m.get(f"rs{key}", ""))) and not (
                    (m.get(f"fragile{u}") == "true" or m.get("incomplete", "") != "") and impl_o[f"rp{key}"] == ints(m.get(f"rm{key}", ""))):
                diffs.append(f"rp{key}: impl {impl_o[f'rp{key}']} not an interleaving of model mem {m.get(f'rm{key}')} / seg {m.get(f'rs{key}')}")
    if m.get("walorder", ""):
        diffs.append(f"the WAL thread's write/rotate order contradicts the model (entries_written vs cap): {m.get('walorder')}")
    if "0" in m.get("bok", "").split(","):
        diffs.append(f"a compaction batch is not one the modelled policy can produce: bok={m.get('bok')}")
    if "index" in impl_o and "index" in m:
        mi = []
        for part in m["index"].split(","):
            if ":" in part:
                a, b = part.split(":")
                mi.append((int(a), sorted(int(x) for x in b.split("+") if x != "")))
        if sorted(mi) != [tuple(x) if not isinstance(x, tuple) else x for x in impl_o["index"]] and sorted(mi) != [(a, b) for a, b in impl_o["index"]]:
            diffs.append(f"segments.idx: impl {impl_o['index']} model {sorted(mi)}")
    if impl_o["dirs"] != sorted(ints(m.get("dirs", ""))):
        diffs.append(f"dirs: impl {impl_o['dirs']} model {m.get('dirs')}")
    mw = {}
    for part in m.get("wal", "").split(","):
        if ":" in part:
            a, b = part.split(":")
            mw[int(a)] = int(b)
    if impl_o["wal"] != mw:
        diffs.append(f"wal: impl {impl_o['wal']} model {mw}")
    return diffs
