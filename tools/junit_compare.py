#!/usr/bin/env python3
"""junit_compare.py <worktree>: compare <worktree>/target/nextest/pb/junit.xml with BASELINE stable_pass."""
import json, sys, xml.etree.ElementTree as ET
t = ET.parse(sys.argv[1] + '/target/nextest/pb/junit.xml')
names = set()
for tc in t.iter('testcase'):
    if tc.find('failure') is None and tc.find('error') is None:
        names.add(tc.get('name')); names.add(tc.get('classname') + '::' + tc.get('name'))
base = json.load(open('/root/.vp/BASELINE.json'))['stable_pass']
missing = [b for b in base if b not in names and b.split('::', 1)[1] not in names]
print('stable_pass', len(base), 'missing', len(missing))
for m in missing[:40]:
    print('  MISSING', m)
