#!/bin/bash
# import_seed6.sh Cnn L : copy the round-6 deliverables of /tmp/seed6/Cnn/SEED into /verif/seeded/Cnn-L, remove the worktree
# (also used for round 6b)
p=$1; l=$2; S=/tmp/seed6/$p/SEED
[ -f $S/bugA.diff ] || { echo "no deliverables in $S"; exit 1; }
d=/verif/seeded/$p-$l; mkdir -p $d
cp $S/bugA.diff $d/patch.diff; cp $S/README.md $d/README.seed.md 2>/dev/null
for f in $S/demoA*; do [ -e "$f" ] && cp -r "$f" $d/; done
git -C /repo apply --check $d/patch.diff && echo "$p-$l applies"
rm -rf /tmp/seed6/$p/target; git -C /repo worktree remove --force /tmp/seed6/$p
