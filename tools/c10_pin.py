#!/usr/bin/env python3
"""Builds corpus/C10/rlte_pinned.json: a fixed set of engine histories with deterministic layouts (every FLUSH and
every compaction round is waited for) and ordered-LIMIT queries in the region where the ORDER BY zone pre-selection
(RLTE planner) is active, together with the exact list of (run, query, wrong answer) that fail on the tree the file
was built on.  The known finding OrderedLimitWrongSlice is identified, for these histories, by exactly those inputs:
any other wrong slice on them is reported as a violation (tools/props/c10.py: classify).

Development tool: run by hand on the unchanged tree (never by a check); each history is run three times and kept
only if its set of failures is the same every time."""
import json, os, sys
sys.path.insert(0, os.path.dirname(os.path.abspath(__file__)))
import vlib
from vlib import Rng
from props import c10, englib


def build(seed=77, n=60):
    rng = Rng(seed).fork("c10pin")
    out = []
    for i in range(n):
        epz = rng.choice([1, 1, 2, 2, 3])
        cfg = dict(fill_factor=rng.choice([1, 2, 3]), event_per_zone=epz, shards=rng.choice([1, 1, 1, 2]),
                   segments_per_merge=rng.choice([2, 3]))
        nev = rng.range(24, 70)
        nctx = rng.range(1, 4)
        kmax = rng.choice([50, 1000, 1000])
        evs, script = [], [("cmd", f"DEFINE t FIELDS {englib.FIELDS}")]
        for j in range(nev):
            k = rng.below(kmax)
            g = f"g{rng.below(3)}"
            c = rng.below(nctx)
            evs.append({"k": k, "g": g, "ctx": f"c{c}", "n": j})
            script.append(("cmd", f'STORE t FOR c{c} PAYLOAD {{"k": {k}, "g": "{g}"}}'))
            r = rng.below(30)
            if r == 0:
                script += [("cmd", "FLUSH"), ("quiesce",)]
            elif r == 1 and i % 2:
                script += [("quiesce",), ("compact",), ("quiesce",)]
        qs, qtexts = [], []
        for _ in range(10):
            desc = rng.chance(1, 2)
            n_ = rng.choice([1, 1, 2, 2, 3, 5])
            m_ = rng.choice([0, 0, 0, 1, 2])
            if rng.chance(1, 4):
                thr = rng.below(kmax)
                q = f"QUERY t WHERE k >= {thr} ORDER BY k{' DESC' if desc else ''} LIMIT {n_} OFFSET {m_}"
                spec = ("ord", desc, n_, m_, thr)
            elif m_:
                q = f"QUERY t ORDER BY k{' DESC' if desc else ''} LIMIT {n_} OFFSET {m_}"; spec = ("ord", desc, n_, m_, None)
            else:
                q = f"QUERY t ORDER BY k{' DESC' if desc else ''} LIMIT {n_}"; spec = ("ord", desc, n_, 0, None)
            if q not in qtexts:
                qs.append(spec); qtexts.append(q)
        script += [("quiesce",), ("cmd", "QUERY t")] + c10._qblock(qtexts)
        script += [("cmd", "FLUSH"), ("quiesce",), ("cmd", "QUERY t")] + c10._qblock(qtexts)
        out.append({"kind": "engine", "line": "", "cfg": cfg, "script": [list(x) for x in script], "evs": evs,
                    "qs": [list(s) for s in qs], "qtexts": qtexts, "pinned": True,
                    "show": f"pinned engine history #{i} {cfg}: {nev} events, " + "; ".join(qtexts)})
    return out


def main():
    cases = build()
    runs = [englib.run_scripts(cases) for _ in range(3)]
    kept, nfail, nq, active = [], 0, 0, 0
    for ci, c in enumerate(cases):
        sets = []
        for r in runs:
            if not r[ci].get("ok"):
                sets.append(None); continue
            sets.append(sorted([run, j, keys] for (run, j, w, keys) in c10._eng_failures(c, r[ci])))
        if None in sets or any(s != sets[0] for s in sets):
            print(f"history #{ci}: not deterministic or harness error, dropped: {sets}")
            continue
        # every listed failure must be one the planner probe calls active (otherwise it is not this finding)
        plans = c10._eng_plans(c, runs[0][ci])
        if any(not plans.get((run, j)) for run, j, _ in sets[0]):
            print(f"history #{ci}: a failure with the pre-selection inactive - not pinned, look at it: {sets[0]}")
            continue
        c["pinned_fail"] = sets[0]
        kept.append(c); nfail += len(sets[0]); nq += 2 * len(c["qs"]); active += sum(1 for v in plans.values() if v)
    path = os.path.join(vlib.VERIF, "corpus", "C10", "rlte_pinned.json")
    json.dump({"note": "built by tools/c10_pin.py on the unchanged tree; pinned_fail = [run, query index, returned keys]",
               "cases": kept}, open(path, "w"))
    print(f"{len(kept)} histories kept, {nq} query evaluations, {active} with the pre-selection active, {nfail} pinned failures -> {path}")


if __name__ == "__main__":
    main()
