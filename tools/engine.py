"""Python driver of the real engine: one `vharn life` child per process lifetime."""
import json, os, shutil, subprocess, tempfile, hashlib, re, time
import vlib

CFG_TMPL = """
[wal]
enabled = true
fsync = false
buffered = {buffered}
buffer_size = "100KB"
dir = "{root}/wal/"
flush_each_write = {flush_each_write}
fsync_every_n = 1024
conservative_mode = {conservative}
archive_dir = "{root}/wal_archived/"
compression_level = 3
compression_algorithm = "zstd"

[engine]
fill_factor = {fill_factor}
data_dir = "{root}/cols"
index_dir = "{root}/index/"
shard_count = {shards}
event_per_zone = {event_per_zone}
compaction_interval = 100000
sys_io_threshold = 1000000
sys_memory_threshold_mb = "1MB"
max_inflight_passives = 8
segments_per_merge = {segments_per_merge}
compaction_max_shard_concurrency = 1

[schema]
def_dir = "{root}/schema/"

[server]
socket_path = "{root}/sneldb.sock"
log_level = "error"
output_format = "json"
tcp_addr = "127.0.0.1:0"
http_addr = "127.0.0.1:0"
ws_addr = "127.0.0.1:0"
auth_token = "mysecrettoken"

[playground]
enabled = false
allow_unauthenticated = true

[auth]
bypass_auth = {bypass_auth}
rate_limit_enabled = false

[logging]
log_dir = "{root}/logs"
stdout_level = "error"
file_level = "error"

[query]
zone_index_cache_max_entries = 256
column_block_cache_max_bytes = "64MB"
zone_surf_cache_max_bytes = "10MB"

[time]
timezone = "UTC"
week_start = "Mon"
use_calendar_bucketing = true
"""

DEFAULTS = dict(buffered="false", flush_each_write="true", conservative="false", fill_factor=2, shards=1,
                event_per_zone=2, segments_per_merge=2, bypass_auth="true")


class Crashed(Exception):
    pass


class Engine:
    def __init__(self, root=None, **cfg):
        self.own_root = root is None
        self.root = root or tempfile.mkdtemp(prefix="vh_", dir=os.path.join(vlib.WORK, "eng"))
        c = dict(DEFAULTS)
        c.update({k: (str(v).lower() if isinstance(v, bool) else v) for k, v in cfg.items()})
        self.cfg = c
        self.cfg_path = os.path.join(self.root, "config.toml")
        with open(self.cfg_path, "w") as f:
            f.write(CFG_TMPL.format(root=self.root, **{k: v for k, v in c.items() if k in DEFAULTS}))
        self.p = None
        self.lifetimes = 0

    # -- lifecycle
    def start(self):
        env = dict(os.environ, SNELDB_CONFIG=self.cfg_path, RUST_LOG="off")
        env.update(getattr(self, "extra_env", None) or {})
        self.p = subprocess.Popen([vlib.VHARN, "life"], stdin=subprocess.PIPE, stdout=subprocess.PIPE,
                                  stderr=subprocess.DEVNULL, text=True, env=env, cwd=self.root)
        line = self.p.stdout.readline()
        if not line:
            raise Crashed("engine did not start")
        self.lifetimes += 1
        return self

    def cmd(self, line):
        try:
            self.p.stdin.write(line.replace("\n", " ") + "\n")
            self.p.stdin.flush()
            out = self.p.stdout.readline()
        except (BrokenPipeError, OSError):
            raise Crashed(line)
        if not out:
            raise Crashed(line)
        return json.loads(out)

    def stop(self):
        """Kill the process (no shutdown sequence): a crash between commands."""
        if self.p:
            try:
                self.p.kill()
                self.p.wait(timeout=10)
            except Exception:
                pass
            self.p = None

    def exit_clean(self):
        if self.p:
            try:
                self.cmd("!flushwait")
                self.cmd("!wal_drained 2000")
                self.p.stdin.write("!exit\n")
                self.p.stdin.flush()
                self.p.wait(timeout=10)
            except Exception:
                self.stop()
            self.p = None

    def restart(self, clean=False):
        if clean:
            self.exit_clean()
        else:
            self.stop()
        return self.start()

    def destroy(self):
        self.stop()
        if self.own_root:
            shutil.rmtree(self.root, ignore_errors=True)

    # -- observations
    def rows(self, line):
        """Runs a QUERY/REPLAY/SHOW and returns (status, list of row dicts) from the JSON stream."""
        r = self.cmd(line)
        return parse_stream(r)

    def dir_digest(self, hashes=True):
        """{shard: {"wal": {file: lines}, "segs": {dir: {file: sha}}, "other": [...]}}"""
        d = {}
        cols = os.path.join(self.root, "cols")
        wal = os.path.join(self.root, "wal")
        for sh in sorted(os.listdir(cols)) if os.path.isdir(cols) else []:
            sd = os.path.join(cols, sh)
            e = {"segs": {}, "other": [], "wal": {}}
            for name in sorted(os.listdir(sd)):
                p = os.path.join(sd, name)
                if os.path.isdir(p) and name.isdigit():
                    files = {}
                    for fn in sorted(os.listdir(p)):
                        fp = os.path.join(p, fn)
                        if os.path.isfile(fp):
                            files[fn] = hashlib.sha256(open(fp, "rb").read()).hexdigest()[:16] if hashes else os.path.getsize(fp)
                    e["segs"][name] = files
                else:
                    e["other"].append(name)
            wd = os.path.join(wal, sh)
            if os.path.isdir(wd):
                for fn in sorted(os.listdir(wd)):
                    fp = os.path.join(wd, fn)
                    if os.path.isfile(fp):
                        e["wal"][fn] = sum(1 for _ in open(fp, "rb"))
            d[sh] = e
        return d


def parse_stream(r):
    """Decode the JSON renderer's output (either one response object or a stream of frames)."""
    if "out" not in r:
        return {"status": None, "rows": [], "raw": r}
    txt = r["out"]
    rows, status, cols, count, msg = [], None, None, None, None
    for ln in txt.split("\n"):
        ln = ln.strip()
        if not ln:
            continue
        try:
            o = json.loads(ln)
        except Exception:
            continue
        if isinstance(o, dict):
            t = o.get("type")
            if t == "schema":
                cols = [c["name"] if isinstance(c, dict) else c for c in o.get("columns", [])]
                status = 200
            elif t == "row":
                v = o.get("values")
                rows.append(v if isinstance(v, dict) else dict(zip(cols or [], v)))
            elif t == "batch":
                for rv in o.get("rows", []):
                    rows.append(rv if isinstance(rv, dict) else dict(zip(cols or o.get("columns", []), rv)))
            elif t == "end":
                count = o.get("row_count")
            elif "status" in o:
                status = o["status"]
                msg = o.get("message")
                res = o.get("results")
                if isinstance(res, list):
                    rows += res
    return {"status": status, "rows": rows, "count": count, "message": msg, "error": r.get("error"), "raw": txt if status is None else None}


os.makedirs(os.path.join(vlib.WORK, "eng"), exist_ok=True)
