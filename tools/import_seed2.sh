#!/bin/bash
# import_seed2.sh Cnn : copy the round-2 deliverables of /tmp/seed2/Cnn/SEED into /verif/seeded/Cnn-C and Cnn-D, remove the worktree
p=$1; S=/tmp/seed2/$p/SEED
[ -f $S/bugA.diff ] || { echo "no deliverables in $S"; exit 1; }
for x in A:C B:D; do a=${x%:*}; c=${x#*:}; d=/verif/seeded/$p-$c; mkdir -p $d
  cp $S/bug$a.diff $d/patch.diff; cp $S/README.md $d/README.seed.md
  for f in $S/demo$a*; do [ -e "$f" ] && cp -r "$f" $d/; done
done
git -C /repo apply --check /verif/seeded/$p-C/patch.diff && echo "$p-C applies"; git -C /repo apply --check /verif/seeded/$p-D/patch.diff && echo "$p-D applies"
rm -rf /tmp/seed2/$p/target; git -C /repo worktree remove --force /tmp/seed2/$p
