#!/bin/bash
# run_seed_isolated.sh <patch.diff> <Cnn> [<Cnn> ...]
# Runs checks against a scratch worktree of /repo with the patch applied, from a scratch COPY of /verif whose
# harness points at that worktree (so /repo and concurrent work are not disturbed). Everything is removed afterwards.
patch=$(readlink -f $1); shift
id=$$
R=/tmp/seedrun/$id/repo; V=/tmp/seedrun/$id/verif
mkdir -p /tmp/seedrun/$id
git -C /repo worktree prune
git -C /repo worktree add -q --detach $R HEAD || exit 2
git -C $R apply $patch || { echo "PATCH DOES NOT APPLY"; git -C /repo worktree remove --force $R; exit 2; }
rsync -a --exclude work --exclude replays --exclude ".git" ${VERIF_SRC:-/verif}/ $V/
sed -i "s#path = \"/repo\"#path = \"$R\"#" $V/harness/Cargo.toml
export VERIF_REPO=$R
cd $V
rc=0
for p in "$@"; do
  echo "=== $p against $(basename $patch)"
  ./check $p > /tmp/seedrun/$id.log 2>&1; grep -E "^VIOLATION|^KNOWN|^$p:" /tmp/seedrun/$id.log | cut -c1-400; grep -q "^$p:" /tmp/seedrun/$id.log || tail -15 /tmp/seedrun/$id.log
  cp -f $V/replays/$p-*.json /tmp/seedrun/ 2>/dev/null
done
cd /
git -C /repo worktree remove --force $R
rm -rf /tmp/seedrun/$id
